"""T-code for C15: regenerate the Gallina text of the CONTROL FLOW of script
generation as Sched/HeaderGen.v (templates and flags stay T-data,
translate/tdata_headers.py).

A fail-closed statement-level translator over the Python `ast` (the modules are
parsed, never imported).  Translated methods:

  SchedulerScriptAdapter._substitute_parallel_command, get_scheduler_command
  SlurmScriptAdapter.get_header, get_parallelize_command, _write_script
  LocalScriptAdapter._write_script
  LSFScriptAdapter.get_header (with the walltime conversion), get_parallelize_command,
                   _write_script
  FluxScriptAdapter._convert_walltime_to_seconds (isinstance(v, int|float|str), v.isnumeric(),
                   float(v), c in v, v.split(c)[::-1], enumerate, 60.0 ** i, integral float
                   literals: floats are modelled on integers; result an int or a float)
  FluxScriptAdapter._write_script (get_header / get_parallelize_command go through the
                   version-specific flux interface: parameters, modelled by hand)

Every statement / expression template maps to one application of a combinator of
Sched/HeaderOps.v or of a function of Sched/Header.v / Sched/Launcher.v:

  dictionaries   {} / dict(d) / d.update(e) / d[k] = v / d.get(k[, dflt]) / d[k] /
                 k in d / d.pop(k) / {r: v for (r, v) in d.items() if v} /
                 for key, value in self._header.items() /
                 for key in set(kwargs.keys()) - self._unsupported: value = kwargs.get(key)
  strings        literals, s.replace(a, b), sep.join(l), s.split(c), s.count(c), a in s,
                 str(v), T.format(..) (T a literal, self._x or a local template;
                 **dict, positional or keyword arguments)
  numbers        int(v) (may raise), +=, %=, +, *, %, <, >, ==, `x or 0`, len(l),
                 ceil(float(t) / k), int(z / k), "{:02d}:{:02d}".format(a, b);
                 `if c: <logging only>` keeps the exceptions of c, short-circuit respected
  regex          re.sub(r"\\s", "_", t) (exactly; the \\s set is T-data, Gen/HeaderData.v py_space_points),
                 list(re.finditer(self.launcher_regex, s)), m.group("alloc"), m.group(),
                 re.search(self.legacy_alloc|node_alloc|task_alloc, s),
                 `if m: m = m.group(..)`
  lists          [a, b], l += [..], l.append(e), l[i]; message lists (`msg`) keep only
                 their length
  files          with open(p, "w") as f: f.write(e) | statements with several f.write(e)
                 (path relative to the workspace; "w" truncates, write appends)
  control        if / elif / else (a branch that falls through hands the variables it
                 assigns back as a tuple), for (loop-carried variables as a tuple),
                 continue, return, raise ValueError | RuntimeError | Exception -> Err Diag
  calls          self.get_header / get_parallelize_command / get_scheduler_command /
                 _substitute_parallel_command

Python variable names and the order of statements are kept, so a changed fall-back
order (`update` calls swapped), a dropped key, swapped flags or arguments, a
dropped or changed comparison of the allocation rule, a changed `replace` CHANGES
the generated text; Sched/HeaderGenProofs.v proves the generated functions equal
to the hand-written model functions the C15 theorems are about, so such a change
breaks a proof obligation.  Aliasing (`resources = self._batch`) is not
expressible in a functional text: it reads like a copy (the check's sequence
stream covers it).  Logging and message strings are dropped.  Anything outside
the templates raises NotTranslatable.
"""
import ast
import os

from translate.regen import NotTranslatable
from translate.tdata_headers import coq_str, coq_template

SCHED = "maestrowf/abstracts/interfaces/schedulerscriptadapter.py"
SLURM = "maestrowf/interfaces/script/slurmscriptadapter.py"
LOCAL = "maestrowf/interfaces/script/localscriptadapter.py"
LSF = "maestrowf/interfaces/script/lsfscriptadapter.py"
FLUX = "maestrowf/interfaces/script/fluxscriptadapter.py"
OUT = "Sched/HeaderGen.v"

MSG_VARS = ("msg", "err_msg")
RESERVED = set("""at as end fun let match with return fix cofix forall exists struct where using by in if then else
Type Prop Set mod st par r x nat list option bool true false Some None Ok Err s""".split())


class Bad(NotTranslatable):
    pass


def bad(src, node, why):
    raise NotTranslatable("%s: line %s: %s" % (src, getattr(node, "lineno", "?"), why))


def G(name):
    if name == "_":
        return "u_"
    return name + "_" if name in RESERVED or name.startswith("x_") or name == "u_" else name


def atom(t):
    t = t.strip()
    if " " not in t and "\n" not in t:
        return t
    if t[0] == "(" and t[-1] == ")":
        depth = 0
        for i, ch in enumerate(t):
            depth += ch == "("
            depth -= ch == ")"
            if depth == 0 and i < len(t) - 1:
                break
        else:
            return t
    if t[0] == "[" and t[-1] == "]" and t.count("[") == 1:
        return t
    return "(%s)" % t


def is_logging(st):
    if isinstance(st, ast.Expr) and isinstance(st.value, ast.Call):
        f = st.value.func
        return isinstance(f, ast.Attribute) and isinstance(f.value, ast.Name) and \
            f.value.id in ("logger", "logging", "LOGGER")
    return False


def is_doc(st):
    return isinstance(st, ast.Expr) and isinstance(st.value, ast.Constant) and isinstance(st.value.value, str)


def self_attr(e, name=None):
    ok = isinstance(e, ast.Attribute) and isinstance(e.value, ast.Name) and e.value.id == "self"
    return ok and (name is None or e.attr == name)


def step_attr(e, name):
    return isinstance(e, ast.Attribute) and isinstance(e.value, ast.Name) and e.value.id == "step" and e.attr == name


def const_str(e):
    return isinstance(e, ast.Constant) and isinstance(e.value, str)


def ind(text, n=2):
    pad = " " * n
    return "\n".join(pad + l if l else l for l in text.split("\n"))


# ----------------------------------------------------------------------------
class Cx:
    """translation context of one method"""

    def __init__(self, src, adapter, fn, env, par, ret):
        self.src, self.adapter, self.fn = src, adapter, fn
        self.env = dict(env)       # python variable -> type
        self.par = par             # Gallina term of get_parallelize_command (dict -> val -> val -> res str)
        self.ret = ret             # 'str' | 'sched3' | 'script'
        self.n = 0
        self.loop_state = []
        self.handles = {}       # stack of loop-carried variable lists

    def fresh(self):
        self.n += 1
        return "x_%d" % self.n

    def bad(self, node, why):
        bad(self.src, node, why + ": `%s`" % ast.unparse(node).split("\n")[0][:80])


TRUTH = {
    "val": "truthy %s", "str": "negb (nilb %s)", "Z": "z_truthy %s", "bool": "%s", "strs": "negb (nilb %s)",
    "msgs": "negb (nilb %s)", "matches": "negb (nilb %s)", "ostr": "is_someb %s", "dict": "negb (nilb %s)",
}


def truth(cx, node, term, ty):
    if ty not in TRUTH:
        cx.bad(node, "no truth value for a %s" % ty)
    return TRUTH[ty] % (atom(term) if ty != "bool" else term)


def coerce(cx, node, term, ty, want):
    """a term of type ty where `want` is expected"""
    if ty == want:
        return term
    if want == "val":
        if ty == "str":
            return "VStr %s" % atom(term)
        if ty == "intlit":
            return "VInt %s" % term
        if ty == "bool":
            return "VBool %s" % atom(term)
        if ty == "nonelit":
            return "VNone"
    if want == "Z" and ty == "intlit":
        return "%s%%Z" % term
    if want == "nat" and ty == "intlit":
        return "%s%%nat" % term
    if want == "ostr":
        if ty == "str":
            return "Some %s" % atom(term)
        if ty == "nonelit":
            return "None"
    if want == "str" and ty == "val":
        return "render %s" % atom(term)
    cx.bad(node, "a %s where a %s is expected" % (ty, want))


# ----------------------------------------------------------------------------
# expressions: ex(cx, e, binds) -> (term, type); effectful sub-expressions are hoisted into binds
# ----------------------------------------------------------------------------
def tpl_of(cx, e):
    """a str.format template: literal, self._x, local template variable -> Gallina term of type template"""
    if const_str(e):
        return coq_template(e.value)
    if isinstance(e, ast.Name) and cx.env.get(e.id) == "tpl":
        return G(e.id)
    if self_attr(e) and e.attr in ("_ntask_header", "_exclusive", "_qos"):
        return "%s%s" % (cx.adapter, e.attr)
    return None


def fmt_call(cx, e, binds):
    """T.format(...)"""
    if const_str(e.func.value) and ":02d}" in e.func.value.value:
        import string
        parts, i = [], 0
        for lit, field, spec, conv in string.Formatter().parse(e.func.value.value):
            if lit:
                parts.append(coq_str(lit))
            if field is None:
                continue
            if field != "" or spec != "02d" or conv or i >= len(e.args):
                cx.bad(e, "format specification")
            v, ty = ex(cx, e.args[i], binds)
            i += 1
            if ty != "Z":
                cx.bad(e, "{:02d} of a %s" % ty)
            parts.append("pad2 %s" % atom(v))
        if i != len(e.args) or e.keywords:
            cx.bad(e, "format arguments")
        return " ++ ".join(parts), "str"
    if const_str(e.func.value) and e.func.value.value == "{}" and len(e.args) == 1 and not e.keywords:
        a, ty = ex(cx, e.args[0], binds)
        return coerce(cx, e, a, ty, "str"), "str"
    t = tpl_of(cx, e.func.value)
    if t is None:
        cx.bad(e, "unknown format template")
    if len(e.keywords) == 1 and e.keywords[0].arg is None and not e.args:
        d, ty = ex(cx, e.keywords[0].value, binds)
        if ty != "dict":
            cx.bad(e, "** of a %s" % ty)
        env = d
    else:
        items = []
        for i, a in enumerate(e.args):
            v, ty = ex(cx, a, binds)
            items.append("(%s, %s)" % (coq_str(str(i)), coerce(cx, a, v, ty, "val")))
        for kw in e.keywords:
            if kw.arg is None:
                cx.bad(e, "** mixed with other arguments")
            v, ty = ex(cx, kw.value, binds)
            items.append("(%s, %s)" % (coq_str(kw.arg), coerce(cx, kw.value, v, ty, "val")))
        env = "[%s]" % "; ".join(items)
    x = cx.fresh()
    binds.append((x, "format %s %s" % (atom(t), atom(env))))
    return x, "str"


REGEX = {"legacy_alloc": ("re_search_legacy", "bool"), "node_alloc": ("re_search_nodes", "ostr"),
         "task_alloc": ("re_search_procs", "ostr")}


def ex(cx, e, binds):
    src = cx.src
    if isinstance(e, ast.Constant):
        if isinstance(e.value, bool):
            return ("true" if e.value else "false"), "bool"
        if isinstance(e.value, str):
            return coq_str(e.value), "str"
        if isinstance(e.value, int) and e.value >= 0:
            return str(e.value), "intlit"
        if e.value is None:
            return "None", "nonelit"
        if isinstance(e.value, float) and e.value.is_integer() and 0 <= e.value < 2 ** 53:
            return "%d%%Z" % int(e.value), "F"        # an integral float (floats are modelled on integers)
        cx.bad(e, "constant")
    if isinstance(e, ast.Name):
        if e.id in cx.env:
            return G(e.id), cx.env[e.id]
        cx.bad(e, "unknown variable")
    if isinstance(e, ast.Attribute):
        if self_attr(e, "_exec"):
            return "exec_", "val"
        if self_attr(e, "_batch"):
            return "batch_", "dict"
        if self_attr(e, "launcher_var"):
            return "launcher_var", "str"
        if self_attr(e, "_extension"):
            return "%s_extension" % cx.adapter, "str"
        if self_attr(e, "_cmd_flags"):
            return "%s_cmd_flags" % cx.adapter, "sdict"
        if self_attr(e, "_unsupported"):
            return "%s_unsupported" % cx.adapter, "names"
        if self_attr(e, "_header"):
            return "%s_header" % cx.adapter, "hdr"
        if self_attr(e) and e.attr in ("_ntask_header", "_exclusive", "_qos"):
            x = cx.fresh()
            binds.append((x, "tpl_raw %s%s" % (cx.adapter, e.attr)))
            return x, "str"
        if step_attr(e, "name"):
            return "st_name st", "str"
        if step_attr(e, "description"):
            return "st_desc st", "str"
        if step_attr(e, "run"):
            return "run_items st", "dict"
        cx.bad(e, "attribute")
    if isinstance(e, ast.Dict) and not e.keys:
        return "d_empty", "dict"
    if isinstance(e, ast.DictComp):
        g = e.generators
        if len(g) == 1 and isinstance(g[0].target, ast.Tuple) and len(g[0].target.elts) == 2 and \
                all(isinstance(t, ast.Name) for t in g[0].target.elts) and isinstance(e.key, ast.Name) and \
                isinstance(e.value, ast.Name) and e.key.id == g[0].target.elts[0].id and \
                e.value.id == g[0].target.elts[1].id and len(g[0].ifs) == 1 and \
                isinstance(g[0].ifs[0], ast.Name) and g[0].ifs[0].id == e.value.id and \
                isinstance(g[0].iter, ast.Call) and isinstance(g[0].iter.func, ast.Attribute) and \
                g[0].iter.func.attr == "items" and not g[0].iter.args:
            d, ty = ex(cx, g[0].iter.func.value, binds)
            if ty == "dict":
                return "truthy_items %s" % atom(d), "dict"
        cx.bad(e, "dictionary comprehension")
    if isinstance(e, ast.List):
        if not e.elts:
            return "[]", "strs"
        items = []
        for a in e.elts:
            v, ty = ex(cx, a, binds)
            items.append(coerce(cx, a, v, ty, "str"))
        return "[%s]" % "; ".join(items), "strs"
    if isinstance(e, ast.Subscript) and isinstance(e.slice, ast.Slice) and e.slice.lower is None and \
            e.slice.upper is None and isinstance(e.slice.step, ast.UnaryOp) and isinstance(e.slice.step.op, ast.USub) and \
            isinstance(e.slice.step.operand, ast.Constant) and e.slice.step.operand.value == 1:
        v, ty = ex(cx, e.value, binds)
        if ty != "strs":
            cx.bad(e, "[::-1] of a %s" % ty)
        return "rev %s" % atom(v), "strs"
    if isinstance(e, ast.Subscript):
        if step_attr(e.value, "run") and const_str(e.slice) and e.slice.value in ("cmd", "restart"):
            return "st_%s st" % e.slice.value, "str"
        c, ty = ex(cx, e.value, binds)
        if ty in ("dict", "sdict"):
            k, kt = ex(cx, e.slice, binds)
            if kt != "str":
                cx.bad(e, "key")
            x = cx.fresh()
            binds.append((x, ("d_index %s %s" if ty == "dict" else "flag %s %s")
                          % ((atom(k), atom(c)) if ty == "dict" else (atom(c), atom(k)))))
            return x, ("val" if ty == "dict" else "str")
        if ty == "strs" and isinstance(e.slice, ast.Constant) and isinstance(e.slice.value, int) and e.slice.value >= 0:
            x = cx.fresh()
            binds.append((x, "idx %d %s" % (e.slice.value, atom(c))))
            return x, "str"
        cx.bad(e, "subscript of a %s" % ty)
    if isinstance(e, ast.BoolOp) and isinstance(e.op, ast.Or) and len(e.values) == 2:
        a, ta = ex(cx, e.values[0], binds)
        b, tb = ex(cx, e.values[1], binds)
        if ta == "val":
            return "v_or %s %s" % (atom(a), atom(coerce(cx, e, b, tb, "val"))), "val"
        cx.bad(e, "`or` of a %s" % ta)
    if isinstance(e, ast.BinOp) and isinstance(e.op, ast.Pow):
        a, ta = ex(cx, e.left, binds)
        b, tb = ex(cx, e.right, binds)
        if ta == "F" and tb == "nat":
            return "Z.pow %s (Z.of_nat %s)" % (atom(a), atom(b)), "F"
        cx.bad(e, "power of a %s by a %s" % (ta, tb))
    if isinstance(e, ast.BinOp) and isinstance(e.op, (ast.Add, ast.Mult, ast.Mod)):
        a, ta = ex(cx, e.left, binds)
        b, tb = ex(cx, e.right, binds)
        if ta == "F" and tb == "F" and isinstance(e.op, (ast.Add, ast.Mult)):
            return "(%s %s %s)%%Z" % (a, "+" if isinstance(e.op, ast.Add) else "*", b), "F"
        if "Z" in (ta, tb) and ta in ("Z", "intlit") and tb in ("Z", "intlit"):
            a, b = coerce(cx, e, a, ta, "Z"), coerce(cx, e, b, tb, "Z")
            if isinstance(e.op, ast.Mod):
                return "Z.modulo %s %s" % (atom(a), atom(b)), "Z"
            return "(%s %s %s)%%Z" % (a, "+" if isinstance(e.op, ast.Add) else "*", b), "Z"
        cx.bad(e, "arithmetic on a %s and a %s" % (ta, tb))
    if isinstance(e, ast.BinOp) and isinstance(e.op, ast.Sub):
        # set(kwargs.keys()) - self._unsupported
        l, r = e.left, e.right
        if isinstance(l, ast.Call) and isinstance(l.func, ast.Name) and l.func.id == "set" and len(l.args) == 1 and \
                isinstance(l.args[0], ast.Call) and isinstance(l.args[0].func, ast.Attribute) and \
                l.args[0].func.attr == "keys" and not l.args[0].args:
            d, ty = ex(cx, l.args[0].func.value, binds)
            n, tn = ex(cx, r, binds)
            if ty == "dict" and tn == "names":
                return "items_minus %s %s" % (atom(d), atom(n)), "keys_of:" + d
        cx.bad(e, "subtraction")
    if isinstance(e, ast.Compare) or isinstance(e, ast.UnaryOp) or isinstance(e, ast.BoolOp):
        return cond(cx, e, binds), "bool"
    if isinstance(e, ast.Call):
        return call(cx, e, binds)
    cx.bad(e, "expression")


def call(cx, e, binds):
    f = e.func
    if isinstance(f, ast.Name):
        if f.id == "str" and len(e.args) == 1 and not e.keywords:
            v, ty = ex(cx, e.args[0], binds)
            if ty == "val":
                return "render %s" % atom(v), "str"
            if ty == "str":
                return v, "str"
            cx.bad(e, "str() of a %s" % ty)
        if f.id == "len" and len(e.args) == 1:
            v, ty = ex(cx, e.args[0], binds)
            if ty == "strs":
                return "List.length %s" % atom(v), "nat"
            cx.bad(e, "len of a %s" % ty)
        if f.id == "ceil" and len(e.args) == 1 and isinstance(e.args[0], ast.BinOp) and \
                isinstance(e.args[0].op, ast.Div) and isinstance(e.args[0].left, ast.Call) and \
                isinstance(e.args[0].left.func, ast.Name) and e.args[0].left.func.id == "float" and \
                len(e.args[0].left.args) == 1 and isinstance(e.args[0].right, ast.Constant) and \
                isinstance(e.args[0].right.value, int) and e.args[0].right.value > 0:
            v, ty = ex(cx, e.args[0].left.args[0], binds)      # ceil(float(s) / k), floats modelled on integer texts
            if ty != "str":
                cx.bad(e, "float of a %s" % ty)
            x = cx.fresh()
            binds.append((x, "float_int %s" % atom(v)))
            return "z_ceil_div %s %d" % (x, e.args[0].right.value), "Z"
        if f.id == "int" and len(e.args) == 1 and isinstance(e.args[0], ast.BinOp) and \
                isinstance(e.args[0].op, ast.Div) and isinstance(e.args[0].right, ast.Constant) and \
                isinstance(e.args[0].right.value, int) and e.args[0].right.value > 0:
            v, ty = ex(cx, e.args[0].left, binds)              # int(z / k): truncation
            if ty != "Z":
                cx.bad(e, "division of a %s" % ty)
            return "Z.quot %s %d" % (atom(v), e.args[0].right.value), "Z"
        if f.id == "isinstance" and len(e.args) == 2 and not e.keywords and isinstance(e.args[1], ast.Name) and \
                e.args[1].id in ("int", "float", "str") and e.args[1].id not in cx.env:
            v, ty = ex(cx, e.args[0], binds)
            if ty != "val":
                cx.bad(e, "isinstance of a %s" % ty)
            return "v_is_%s %s" % (e.args[1].id, atom(v)), "bool"
        if f.id == "float" and len(e.args) == 1 and not e.keywords:
            v, ty = ex(cx, e.args[0], binds)
            x = cx.fresh()
            if ty == "val":
                binds.append((x, "v_float %s" % atom(v)))
            elif ty == "str":
                binds.append((x, "float_int %s" % atom(v)))
            else:
                cx.bad(e, "float of a %s" % ty)
            return x, "F"
        if f.id == "int" and len(e.args) == 1 and not e.keywords:
            v, ty = ex(cx, e.args[0], binds)
            if ty in ("Z", "F"):
                return v, "Z"
            x = cx.fresh()
            binds.append((x, "int_of %s" % atom(coerce(cx, e, v, ty, "val"))))
            return x, "Z"
        if f.id == "bool" and len(e.args) == 1:
            return cond(cx, e.args[0], binds), "bool"
        if f.id == "dict" and len(e.args) == 1 and not e.keywords:
            v, ty = ex(cx, e.args[0], binds)
            if ty == "dict":
                return v, "dict"
        if f.id == "list" and len(e.args) == 1:
            a = e.args[0]
            if isinstance(a, ast.Call) and isinstance(a.func, ast.Attribute) and a.func.attr == "finditer" and \
                    isinstance(a.func.value, ast.Name) and a.func.value.id == "re" and len(a.args) == 2 and \
                    self_attr(a.args[0], "launcher_regex"):
                v, ty = ex(cx, a.args[1], binds)
                if ty == "str":
                    return "re_finditer_launcher %s" % atom(v), "matches"
        cx.bad(e, "call")
    if not isinstance(f, ast.Attribute):
        cx.bad(e, "call")
    # re.search(self.<regex>, s)
    if isinstance(f.value, ast.Name) and f.value.id == "re" and f.attr == "search" and len(e.args) == 2 and \
            self_attr(e.args[0]) and e.args[0].attr in REGEX:
        v, ty = ex(cx, e.args[1], binds)
        if ty != "str":
            cx.bad(e, "re.search in a %s" % ty)
        fn, rt = REGEX[e.args[0].attr]
        return "%s %s" % (fn, atom(v)), rt
    # re.sub(r"\s", "_", t): exactly this pattern and replacement, no count / flags
    if isinstance(f.value, ast.Name) and f.value.id == "re" and f.attr == "sub" and "re" not in cx.env:
        if len(e.args) != 3 or e.keywords or not const_str(e.args[0]) or e.args[0].value != "\\s" or \
                not const_str(e.args[1]) or e.args[1].value != "_":
            cx.bad(e, "re.sub other than re.sub(r\"\\s\", \"_\", t)")
        v, ty = ex(cx, e.args[2], binds)
        if ty != "str":
            cx.bad(e, "re.sub in a %s" % ty)
        return "subst_ws %s" % atom(v), "str"
    if isinstance(f.value, ast.Attribute) and isinstance(f.value.value, ast.Name) and f.value.value.id == "os" and \
            f.value.attr == "path" and f.attr == "join" and len(e.args) == 2 and \
            isinstance(e.args[0], ast.Name) and e.args[0].id == "ws_path":
        return ex(cx, e.args[1], binds)         # paths are relative to the workspace
    # methods of self
    if self_attr(f):
        if f.attr == "get_parallelize_command" and len(e.args) == 2 and len(e.keywords) == 1 and e.keywords[0].arg is None:
            p, tp = ex(cx, e.args[0], binds)
            n, tn = ex(cx, e.args[1], binds)
            d, td = ex(cx, e.keywords[0].value, binds)
            if td != "dict":
                cx.bad(e, "** of a %s" % td)
            x = cx.fresh()
            binds.append((x, "%s %s %s %s" % (cx.par, atom(d), atom(coerce(cx, e, p, tp, "val")),
                                              atom(coerce(cx, e, n, tn, "val")))))
            return x, "str"
        if f.attr == "_substitute_parallel_command" and len(e.args) == 1 and len(e.keywords) == 1 and \
                e.keywords[0].arg is None:
            c, tc = ex(cx, e.args[0], binds)
            d, td = ex(cx, e.keywords[0].value, binds)
            if tc != "str" or td != "dict":
                cx.bad(e, "arguments")
            x = cx.fresh()
            binds.append((x, "substitute_gen %s %s %s" % (cx.par, atom(c), atom(d))))
            return x, "str"
        if f.attr == "get_scheduler_command" and len(e.args) == 1 and isinstance(e.args[0], ast.Name) and \
                e.args[0].id == "step" and not e.keywords:
            x = cx.fresh()
            binds.append((x, "scheduler_command_gen %s st" % cx.par))
            return x, "sched3"
        if f.attr == "get_header" and len(e.args) == 1 and isinstance(e.args[0], ast.Name) and e.args[0].id == "step":
            x = cx.fresh()
            binds.append((x, "get_header st" if cx.adapter == "flux" else
                          "%s_get_header_gen batch_ exec_ st" % cx.adapter))
            return x, "str"
        cx.bad(e, "method of self")
    if f.attr == "format":
        return fmt_call(cx, e, binds)
    if f.attr == "join" and len(e.args) == 1 and const_str(f.value):
        l, ty = ex(cx, e.args[0], binds)
        if ty == "strs":
            return "join %s %s" % (atom(coq_str(f.value.value)), atom(l)), "str"
        cx.bad(e, "join of a %s" % ty)
    o, to = ex(cx, f.value, binds)
    if f.attr == "isnumeric" and to == "val" and not e.args and not e.keywords:
        return "v_isnumeric %s" % atom(o), "bool"       # only evaluated behind isinstance(.., str)
    if f.attr == "split" and to == "val" and len(e.args) == 1 and const_str(e.args[0]) and not e.keywords:
        x = cx.fresh()
        binds.append((x, "v_split %s %s" % (atom(coq_str(e.args[0].value)), atom(o))))
        return x, "strs"
    if f.attr == "get" and to == "dict" and 1 <= len(e.args) <= 2 and not e.keywords:
        k, tk = ex(cx, e.args[0], binds)
        if tk != "str":
            cx.bad(e, "key")
        if len(e.args) == 1:
            return "d_get %s %s" % (atom(k), atom(o)), "val"
        d, td = ex(cx, e.args[1], binds)
        return "d_get_default %s %s %s" % (atom(k), atom(coerce(cx, e, d, td, "val")), atom(o)), "val"
    if f.attr == "replace" and to == "str" and len(e.args) == 2 and not e.keywords:
        a, ta = ex(cx, e.args[0], binds)
        b, tb = ex(cx, e.args[1], binds)
        if ta != "str" or tb != "str":
            cx.bad(e, "replace arguments")
        return "replace %s %s %s" % (atom(a), atom(b), atom(o)), "str"
    if f.attr == "split" and to == "str" and len(e.args) == 1 and const_str(e.args[0]):
        return "str_split %s %s" % (atom(coq_str(e.args[0].value)), atom(o)), "strs"
    if f.attr == "count" and to == "str" and len(e.args) == 1 and const_str(e.args[0]):
        return "str_count %s %s" % (atom(coq_str(e.args[0].value)), atom(o)), "nat"
    if f.attr == "group" and to == "match":
        if not e.args:
            return "match_group_all %s" % atom(o), "str"
        if len(e.args) == 1 and const_str(e.args[0]) and e.args[0].value == "alloc":
            return "match_group_alloc %s" % atom(o), "str"
    cx.bad(e, "call")


def cond(cx, e, binds):
    """truth value of an expression"""
    if isinstance(e, ast.BoolOp):
        parts = []
        for i, v in enumerate(e.values):
            n0 = len(binds)
            parts.append(atom(cond(cx, v, binds)) if isinstance(v, ast.BoolOp) else cond(cx, v, binds))
            if i > 0 and len(binds) > n0:
                cx.bad(e, "an operand that may raise is skipped by short-circuit evaluation")
        return (" && " if isinstance(e.op, ast.And) else " || ").join(parts)
    if isinstance(e, ast.UnaryOp) and isinstance(e.op, ast.Not):
        return "negb %s" % atom(cond(cx, e.operand, binds))
    if isinstance(e, ast.Compare) and len(e.ops) == 1:
        l, op, r = e.left, e.ops[0], e.comparators[0]
        if isinstance(op, (ast.In, ast.NotIn)):
            a, ta = ex(cx, l, binds)
            b, tb = ex(cx, r, binds)
            if ta == "str" and tb in ("dict", "sdict"):
                t = "d_has %s %s" % (atom(a), atom(b))
            elif ta == "str" and tb == "str":
                t = "containsb %s %s" % (atom(a), atom(b))
            elif ta == "str" and tb == "val":
                t = cx.fresh()                          # TypeError unless a str
                binds.append((t, "v_contains %s %s" % (atom(a), atom(b))))
            else:
                cx.bad(e, "`in` of a %s in a %s" % (ta, tb))
            return t if isinstance(op, ast.In) else "negb (%s)" % t
        if isinstance(op, ast.Eq):
            a, ta = ex(cx, l, binds)
            b, tb = ex(cx, r, binds)
            ty = ta if ta in ("Z", "nat") else tb
            if ty == "nat":
                return "Nat.eqb %s %s" % (atom(coerce(cx, e, a, ta, ty)), atom(coerce(cx, e, b, tb, ty)))
            if ty == "Z":
                return "(%s =? %s)%%Z" % (coerce(cx, e, a, ta, ty), coerce(cx, e, b, tb, ty))
            if ta == "val" and tb == "str":
                return "v_eq_str %s %s" % (atom(a), atom(b))
            cx.bad(e, "== of a %s and a %s" % (ta, tb))
        if isinstance(op, (ast.Gt, ast.Lt)):
            a, ta = ex(cx, l, binds)
            b, tb = ex(cx, r, binds)
            ty = ta if ta in ("Z", "nat") else tb
            if ty not in ("Z", "nat"):
                cx.bad(e, "comparison of a %s and a %s" % (ta, tb))
            a, b = coerce(cx, e, a, ta, ty), coerce(cx, e, b, tb, ty)
            if isinstance(op, ast.Gt):
                a, b = b, a
            return "(%s <? %s)%%%s" % (a, b, ty)
    t, ty = ex(cx, e, binds)
    return truth(cx, e, t, ty)


def effects(cx, e):
    """the evaluation of a condition for its exceptions only, short-circuit respected:
    a term of type res unit, or None when the condition cannot raise"""
    if isinstance(e, ast.BoolOp) and len(e.values) >= 2:
        first = e.values[0]
        rest = e.values[1] if len(e.values) == 2 else ast.BoolOp(op=e.op, values=e.values[1:])
        b = []
        c = cond(cx, first, b)
        r = effects(cx, rest)
        if r is None:
            return (emit_binds(b) + "Ok tt") if b else None
        if isinstance(e.op, ast.And):
            return emit_binds(b) + "if %s then\n%s\nelse\n  Ok tt" % (c, ind(r))
        return emit_binds(b) + "if %s then\n  Ok tt\nelse\n%s" % (c, ind(r))
    b = []
    cond(cx, e, b)
    return (emit_binds(b) + "Ok tt") if b else None


# ----------------------------------------------------------------------------
# statements
# ----------------------------------------------------------------------------
def effective(stmts):
    return [st for st in stmts if not (is_logging(st) or is_doc(st) or isinstance(st, ast.Pass))]


def terminates(stmts):
    stmts = effective(stmts)
    if not stmts:
        return False
    last = stmts[-1]
    if isinstance(last, (ast.Return, ast.Raise, ast.Continue)):
        return True
    if isinstance(last, ast.If):
        return terminates(last.body) and terminates(last.orelse)
    return False


def assigned(stmts):
    """names (re)bound or mutated by the statements, in first-occurrence order"""
    out = []

    def add(n):
        if n not in out:
            out.append(n)
    for st in stmts:
        for n in ast.walk(st):
            if isinstance(n, ast.Assign):
                for t in n.targets:
                    for m in ast.walk(t):
                        if isinstance(m, ast.Name) and isinstance(m.ctx, ast.Store):
                            add(m.id)
                    if isinstance(t, ast.Subscript) and isinstance(t.value, ast.Name):
                        add(t.value.id)
            elif isinstance(n, ast.AugAssign) and isinstance(n.target, ast.Name):
                add(n.target.id)
            elif isinstance(n, ast.Expr) and isinstance(n.value, ast.Call) and isinstance(n.value.func, ast.Attribute) \
                    and isinstance(n.value.func.value, ast.Name) and n.value.func.attr in ("append", "update", "pop"):
                add(n.value.func.value.id)
            elif isinstance(n, ast.With):
                add("files")
            elif isinstance(n, ast.Expr) and isinstance(n.value, ast.Call) and isinstance(n.value.func, ast.Attribute) \
                    and isinstance(n.value.func.value, ast.Name) and n.value.func.attr == "write":
                add("files")
    return out


def emit_binds(binds):
    return "".join("%s <- %s ;;\n" % (x, t) for x, t in binds)


def tuple_of(names):
    return G(names[0]) if len(names) == 1 else "(%s)" % ", ".join(G(n) for n in names)


def pat_of(names):
    return G(names[0]) if len(names) == 1 else "'(%s)" % ", ".join(G(n) for n in names)


def block(cx, stmts, k):
    """text (a term of type res _) of the statements followed by the continuation k()"""
    stmts = effective(stmts)
    if not stmts:
        return k()
    st, rest = stmts[0], stmts[1:]

    def cont():
        return block(cx, rest, k)
    binds = []
    if isinstance(st, ast.Return):
        return ret(cx, st)
    if isinstance(st, ast.Raise):
        e = st.exc
        name = e.func.id if isinstance(e, ast.Call) and isinstance(e.func, ast.Name) else \
            (e.id if isinstance(e, ast.Name) else None)
        if name in ("ValueError", "RuntimeError", "Exception"):
            return "Err Diag"
        cx.bad(st, "raise")
    if isinstance(st, ast.Continue):
        if not cx.loop_state:
            cx.bad(st, "continue outside a loop")
        return "Ok %s" % tuple_of(cx.loop_state[-1])
    if isinstance(st, ast.Assign) and len(st.targets) == 1:
        t = st.targets[0]
        if isinstance(t, ast.Name):
            if t.id in MSG_VARS and not (isinstance(st.value, ast.List) and not st.value.elts):
                return cont()                       # a message string
            if t.id in MSG_VARS:
                cx.env[t.id] = "msgs"
                return "let %s := [] : list unit in\n%s" % (G(t.id), cont())
            v, ty = ex(cx, st.value, binds)
            if ty == "intlit" and cx.env.get(t.id) == "val":
                v, ty = "VInt %s" % v, "val"        # the variable already holds a Python value
            if ty == "intlit":
                v, ty = "%s%%Z" % v, "Z"
            if ty == "nonelit":
                v = "VNone"                         # typed at its uses (None of an option, or the value None)
            if ty == "sched3":
                cx.bad(st, "the result of get_scheduler_command must be unpacked")
            if const_str(st.value) and "{" in st.value.value:
                v, ty = coq_template(st.value.value), "tpl"    # a local str.format template
            cx.env[t.id] = ty
            return emit_binds(binds) + "let %s := %s in\n%s" % (G(t.id), v, cont())
        if isinstance(t, ast.Tuple) and all(isinstance(x, ast.Name) for x in t.elts):
            v, ty = ex(cx, st.value, binds)
            if ty == "sched3" and len(t.elts) == 3:
                for x, xt in zip(t.elts, ("bool", "str", "str")):
                    cx.env[x.id] = xt
                return emit_binds(binds) + "let '(%s) := %s in\n%s" % (", ".join(G(x.id) for x in t.elts), v, cont())
            cx.bad(st, "tuple assignment")
        if isinstance(t, ast.Subscript) and isinstance(t.value, ast.Name) and cx.env.get(t.value.id) == "dict":
            k_, tk = ex(cx, t.slice, binds)
            v, ty = ex(cx, st.value, binds)
            if tk != "str":
                cx.bad(st, "key")
            d = G(t.value.id)
            return emit_binds(binds) + "let %s := d_set %s %s %s in\n%s" % (
                d, atom(k_), atom(coerce(cx, st, v, ty, "val")), d, cont())
        cx.bad(st, "assignment")
    if isinstance(st, ast.AugAssign) and isinstance(st.op, ast.Mod) and isinstance(st.target, ast.Name) and \
            cx.env.get(st.target.id) == "Z":
        v, tv = ex(cx, st.value, binds)
        n = st.target.id
        return emit_binds(binds) + "let %s := Z.modulo %s %s in\n%s" % (G(n), G(n), atom(coerce(cx, st, v, tv, "Z")), cont())
    if isinstance(st, ast.AugAssign) and isinstance(st.op, ast.Add) and isinstance(st.target, ast.Name):
        n = st.target.id
        ty = cx.env.get(n)
        v, tv = ex(cx, st.value, binds)
        if ty == "strs" and tv == "strs":
            return emit_binds(binds) + "let %s := %s ++ %s in\n%s" % (G(n), G(n), v, cont())
        if ty == "Z":
            return emit_binds(binds) + "let %s := (%s + %s)%%Z in\n%s" % (G(n), G(n), coerce(cx, st, v, tv, "Z"), cont())
        if ty == "F" and tv == "F":
            return emit_binds(binds) + "let %s := (%s + %s)%%Z in\n%s" % (G(n), G(n), v, cont())
        cx.bad(st, "+= on a %s" % ty)
    if isinstance(st, ast.Expr) and isinstance(st.value, ast.Call) and isinstance(st.value.func, ast.Attribute) and \
            isinstance(st.value.func.value, ast.Name):
        c = st.value
        n, m = c.func.value.id, c.func.attr
        ty = cx.env.get(n)
        if m == "update" and ty == "dict" and len(c.args) == 1:
            v, tv = ex(cx, c.args[0], binds)
            if tv != "dict":
                cx.bad(st, "update with a %s" % tv)
            return emit_binds(binds) + "let %s := d_update %s %s in\n%s" % (G(n), G(n), atom(v), cont())
        if m == "append" and ty == "msgs" and len(c.args) == 1:
            return "let %s := %s ++ [tt] in\n%s" % (G(n), G(n), cont())
        if m == "append" and ty == "strs" and len(c.args) == 1:
            v, tv = ex(cx, c.args[0], binds)
            return emit_binds(binds) + "let %s := %s ++ [%s] in\n%s" % (G(n), G(n), coerce(cx, st, v, tv, "str"), cont())
        if m == "write" and n in cx.handles and len(c.args) == 1 and not c.keywords:
            v, tv = ex(cx, c.args[0], binds)
            if tv != "str":
                cx.bad(st, "write of a %s" % tv)
            return emit_binds(binds) + "let files := file_append %s %s files in\n%s" % (cx.handles[n], atom(v), cont())
        if m == "pop" and ty == "dict" and len(c.args) == 1 and const_str(c.args[0]):
            return "%s <- d_pop %s %s ;;\n%s" % (G(n), atom(coq_str(c.args[0].value)), G(n), cont())
        cx.bad(st, "call statement")
    if isinstance(st, ast.With):
        # with open(p, "w") as f: f.write(e)
        if len(st.items) == 1 and isinstance(st.items[0].context_expr, ast.Call) and \
                isinstance(st.items[0].context_expr.func, ast.Name) and st.items[0].context_expr.func.id == "open" and \
                len(st.items[0].context_expr.args) == 2 and const_str(st.items[0].context_expr.args[1]) and \
                st.items[0].context_expr.args[1].value == "w" and not st.items[0].context_expr.keywords and \
                isinstance(st.items[0].optional_vars, ast.Name) and len(effective(st.body)) == 1:
            f = st.items[0].optional_vars.id
            w = effective(st.body)[0]
            if isinstance(w, ast.Expr) and isinstance(w.value, ast.Call) and isinstance(w.value.func, ast.Attribute) and \
                    w.value.func.attr == "write" and isinstance(w.value.func.value, ast.Name) and \
                    w.value.func.value.id == f and len(w.value.args) == 1:
                p, tp = ex(cx, st.items[0].context_expr.args[0], binds)
                v, tv = ex(cx, w.value.args[0], binds)
                if tp != "str" or tv != "str":
                    cx.bad(st, "file write")
                cx.env["files"] = "files"
                return emit_binds(binds) + "let files := file_write %s %s files in\n%s" % (atom(p), atom(v), cont())
        # with open(p, "w") as f: <statements with f.write(e)>
        it = st.items[0] if len(st.items) == 1 else None
        if it is not None and isinstance(it.context_expr, ast.Call) and isinstance(it.context_expr.func, ast.Name) and \
                it.context_expr.func.id == "open" and len(it.context_expr.args) == 2 and \
                const_str(it.context_expr.args[1]) and it.context_expr.args[1].value == "w" and \
                not it.context_expr.keywords and isinstance(it.optional_vars, ast.Name) and \
                isinstance(it.context_expr.args[0], ast.Name) and cx.env.get(it.context_expr.args[0].id) == "str":
            f, pth = it.optional_vars.id, G(it.context_expr.args[0].id)
            if f in cx.handles or f in cx.env:
                cx.bad(st, "file handle name reused")
            cx.env["files"] = "files"
            cx.handles[f] = pth

            def closed():
                del cx.handles[f]
                return cont()
            return "let files := file_open %s files in\n%s" % (pth, block(cx, st.body, closed))
        cx.bad(st, "with")
    if isinstance(st, ast.If):
        return if_stmt(cx, st, cont)
    if isinstance(st, ast.For):
        return for_stmt(cx, st, cont)
    cx.bad(st, "statement")


def ret(cx, st):
    binds = []
    v = st.value
    if cx.ret == "str":
        t, ty = ex(cx, v, binds)
        return emit_binds(binds) + "Ok %s" % atom(coerce(cx, st, t, ty, "str"))
    if cx.ret == "num":
        t, ty = ex(cx, v, binds)
        if ty == "intlit":
            return emit_binds(binds) + "Ok (NumI %s%%Z)" % t
        if ty == "Z":
            return emit_binds(binds) + "Ok (NumI %s)" % atom(t)
        if ty == "F":
            return emit_binds(binds) + "Ok (NumF %s)" % atom(t)
        cx.bad(st, "return of a %s" % ty)
    if cx.ret == "sched3" and isinstance(v, ast.Tuple) and len(v.elts) == 3:
        parts = []
        for x, want in zip(v.elts, ("bool", "str", "str")):
            t, ty = ex(cx, x, binds)
            parts.append(coerce(cx, st, t, ty, want))
        return emit_binds(binds) + "Ok (%s)" % ", ".join(parts)
    if cx.ret == "script" and isinstance(v, ast.Tuple) and len(v.elts) == 3:
        parts = []
        for x, want in zip(v.elts, ("bool", "str", "ostr")):
            t, ty = ex(cx, x, binds)
            parts.append(atom(coerce(cx, st, t, ty, want)))
        return emit_binds(binds) + "Ok (mk_script %s files)" % " ".join(parts)
    cx.bad(st, "return")


def unify(cx, node, a, b):
    if a == b:
        return a
    if set((a, b)) == set(("str", "nonelit")):
        return "ostr"
    if set((a, b)) <= set(("val", "nonelit", "str")) and "val" in (a, b):
        return "val"
    if set((a, b)) == set(("bool", "bool")):
        return "bool"
    cx.bad(node, "a variable is a %s on one path and a %s on the other" % (a, b))


def branch(cx, stmts, env0, vars_, types):
    """a falling-through branch: its text, ending in `Ok (the variables)`, coerced to `types`"""
    cx.env = dict(env0)

    def k():
        parts = []
        for v, want in zip(vars_, types):
            ty = cx.env[v]
            t = G(v)
            if ty == "nonelit_var":
                ty = "nonelit"
            parts.append(coerce(cx, stmts[0] if stmts else None, t, ty, want) if ty != want else t)
        return "Ok %s" % ("(%s)" % ", ".join(parts) if len(parts) > 1 else atom(parts[0]))
    return block(cx, stmts, k)


def if_stmt(cx, st, cont):
    binds = []
    # `if m: m = m.group("..")`
    if isinstance(st.test, ast.Name) and cx.env.get(st.test.id) == "ostr" and not st.orelse and \
            len(effective(st.body)) == 1:
        b = effective(st.body)[0]
        if isinstance(b, ast.Assign) and len(b.targets) == 1 and isinstance(b.targets[0], ast.Name) and \
                b.targets[0].id == st.test.id and isinstance(b.value, ast.Call) and \
                isinstance(b.value.func, ast.Attribute) and b.value.func.attr == "group" and \
                isinstance(b.value.func.value, ast.Name) and b.value.func.value.id == st.test.id and \
                len(b.value.args) == 1 and const_str(b.value.args[0]) and b.value.args[0].value in ("nodes", "procs"):
            n = st.test.id
            cx.env[n] = "val"
            return "let %s := group_val %s in\n%s" % (G(n), G(n), cont())
    if not effective(st.body) and not effective(st.orelse):
        # only logging inside: the condition is still evaluated (it may raise)
        eff = effects(cx, st.test)
        if eff is None:
            return cont()
        return "_ <- (%s) ;;\n%s" % (eff, cont())
    c = cond(cx, st.test, binds)
    env0 = dict(cx.env)
    t_then, t_else = terminates(st.body), terminates(st.orelse)
    if t_then and t_else:
        a = block(cx, st.body, lambda: cx.bad(st, "falls through"))
        cx.env = dict(env0)
        b = block(cx, st.orelse, lambda: cx.bad(st, "falls through"))
        return emit_binds(binds) + "if %s then\n%s\nelse\n%s" % (c, ind(a), ind(b))
    if t_then or t_else:
        term_b, fall_b = (st.body, st.orelse) if t_then else (st.orelse, st.body)
        a = block(cx, term_b, lambda: cx.bad(st, "falls through"))
        cx.env = dict(env0)
        b = block(cx, fall_b, cont)
        if t_then:
            return emit_binds(binds) + "if %s then\n%s\nelse\n%s" % (c, ind(a), b)
        return emit_binds(binds) + "if negb %s then\n%s\nelse\n%s" % (atom(c), ind(a), b)
    # both branches fall through: hand the assigned variables back
    av_t, av_e = assigned(st.body), assigned(st.orelse)
    vars_ = [v for v in av_t + [x for x in av_e if x not in av_t]
             if v in env0 or (v in av_t and v in av_e) or v == "files"]
    vars_ = [v for v in vars_ if v not in MSG_VARS or env0.get(v) == "msgs"]
    if not vars_:
        cx.bad(st, "an `if` without effect")
    # types after each branch
    saved = dict(cx.env)
    ty_t, ty_e = [], []
    for stmts, out in ((st.body, ty_t), (st.orelse, ty_e)):
        cx.env = dict(env0)
        n0 = cx.n
        block(cx, stmts, lambda: "")
        cx.n = n0
        for v in vars_:
            if v not in cx.env:
                cx.bad(st, "`%s` is not bound on every path" % v)
            out.append(cx.env[v])
    types = [unify(cx, st, a, b) for a, b in zip(ty_t, ty_e)]
    types = ["val" if t == "nonelit" else t for t in types]
    a = branch(cx, effective(st.body), env0, vars_, types)
    b = branch(cx, effective(st.orelse), env0, vars_, types)
    cx.env = dict(env0)
    for v, t in zip(vars_, types):
        cx.env[v] = t
    head = "%s <- (if %s then\n%s\nelse\n%s) ;;\n" % (
        G(vars_[0]) if len(vars_) == 1 else "r", c, ind(a), ind(b))
    if len(vars_) > 1:
        head += "let %s := r in\n" % pat_of(vars_)
    return emit_binds(binds) + head + cont()


def for_stmt(cx, st, cont):
    binds = []
    if st.orelse:
        cx.bad(st, "for ... else")
    body = effective(st.body)
    env0 = dict(cx.env)
    it, ty = None, None
    # for key, value in self._header.items()
    if isinstance(st.iter, ast.Call) and isinstance(st.iter.func, ast.Attribute) and st.iter.func.attr == "items" and \
            self_attr(st.iter.func.value, "_header") and isinstance(st.target, ast.Tuple) and len(st.target.elts) == 2:
        it = "%s_header" % cx.adapter
        names = [x.id for x in st.target.elts]
        cx.env[names[0]], cx.env[names[1]] = "str", "tpl"
        pat = "'(%s, %s)" % (G(names[0]), G(names[1]))
    elif isinstance(st.iter, ast.Call) and isinstance(st.iter.func, ast.Name) and st.iter.func.id == "enumerate" and \
            "enumerate" not in cx.env and len(st.iter.args) == 1 and not st.iter.keywords and \
            isinstance(st.target, ast.Tuple) and len(st.target.elts) == 2 and \
            all(isinstance(x, ast.Name) for x in st.target.elts):
        l, tl = ex(cx, st.iter.args[0], binds)
        if tl != "strs":
            cx.bad(st, "enumerate of a %s" % tl)
        it = "(enum %s)" % atom(l)
        names = [x.id for x in st.target.elts]
        cx.env[names[0]], cx.env[names[1]] = "nat", "str"
        pat = "'(%s, %s)" % (G(names[0]), G(names[1]))
    elif isinstance(st.iter, ast.Name) and cx.env.get(st.iter.id) == "matches" and isinstance(st.target, ast.Name):
        it = G(st.iter.id)
        cx.env[st.target.id] = "match"
        pat = G(st.target.id)
    elif isinstance(st.iter, ast.Name) and str(cx.env.get(st.iter.id, "")).startswith("keys_of:") and \
            isinstance(st.target, ast.Name) and body:
        # for key in <keys of d minus names>: value = d.get(key)
        d = cx.env[st.iter.id][len("keys_of:"):]
        first = body[0]
        ok = isinstance(first, ast.Assign) and len(first.targets) == 1 and isinstance(first.targets[0], ast.Name) and \
            isinstance(first.value, ast.Call) and isinstance(first.value.func, ast.Attribute) and \
            first.value.func.attr == "get" and len(first.value.args) == 1 and not first.value.keywords and \
            isinstance(first.value.args[0], ast.Name) and first.value.args[0].id == st.target.id
        if ok:
            d2, _ = ex(cx, first.value.func.value, [])
            ok = d2 == d
        if not ok:
            cx.bad(st, "a loop over the keys of a dictionary must start with `value = <dict>.get(key)`")
        it = G(st.iter.id)
        cx.env[st.target.id], cx.env[first.targets[0].id] = "str", "val"
        pat = "'(%s, %s)" % (G(st.target.id), G(first.targets[0].id))
        body = body[1:]
    else:
        cx.bad(st, "loop")
    state = [v for v in assigned(body) if v in env0 and (v not in MSG_VARS)]
    if not state:
        cx.bad(st, "a loop without effect")
    cx.loop_state.append(state)
    inner = block(cx, body, lambda: "Ok %s" % tuple_of(state))
    cx.loop_state.pop()
    for v in state:
        if cx.env.get(v) != env0[v]:
            cx.bad(st, "`%s` changes its type in the loop" % v)
    cx.env = dict(env0)
    head = "%s <- for_res %s (fun %s %s =>\n%s) %s ;;\n" % (
        G(state[0]) if len(state) == 1 else "r", it, pat, pat_of(state), ind(inner), tuple_of(state))
    if len(state) > 1:
        head += "let %s := r in\n" % pat_of(state)
    return emit_binds(binds) + head + cont()


# ----------------------------------------------------------------------------
def find_method(src, mod, cls, name):
    for n in mod.body:
        if isinstance(n, ast.ClassDef) and n.name == cls:
            for m in n.body:
                if isinstance(m, ast.FunctionDef) and m.name == name:
                    return m
    raise NotTranslatable("%s: method %s.%s not found" % (src, cls, name))


def parse(repo, rel):
    p = os.path.join(repo, rel)
    try:
        return ast.parse(open(p).read(), p)
    except (OSError, SyntaxError) as e:
        raise NotTranslatable("cannot parse %s: %s" % (rel, e))


def params(src, fn, expected):
    a = fn.args
    got = [x.arg for x in a.args] + (["*" + a.vararg.arg] if a.vararg else []) + \
        (["**" + a.kwarg.arg] if a.kwarg else [])
    if got != expected:
        raise NotTranslatable("%s: %s has parameters %s, expected %s" % (src, fn.name, got, expected))


def method(src, adapter, fn, header, env, par, ret_kind, init=""):
    cx = Cx(src, adapter, fn, env, par, ret_kind)
    body = block(cx, fn.body, lambda: bad(src, fn, "%s does not return on every path" % fn.name))
    return "%s\n%s%s." % (header, ind(init + body), "")


def generate(repo):
    out = []
    w = out.append
    w("(** The control flow of script generation, statement by statement.")
    w("    GENERATED by translate/tcode_header.py from /repo's current source, as")
    w("    compositions of the combinators of Sched/HeaderOps.v and the functions of")
    w("    Sched/Header.v / Sched/Launcher.v (templates and flags: Gen/HeaderData.v);")
    w("    Sched/HeaderGenProofs.v proves every function below equal to the hand-written")
    w("    model function the theorems of Props/C15.v are about.  Do not edit by hand. *)")
    w("From Coq Require Import List Arith NArith ZArith Bool.")
    w("From MWF Require Import Base.Str Gen.HeaderData Sched.Header Sched.Launcher Sched.HeaderOps.")
    w("Import ListNotations.")
    w("Local Open Scope N_scope.")
    w("Local Open Scope list_scope.")
    w("")

    sched = parse(repo, SCHED)
    slurm = parse(repo, SLURM)
    local = parse(repo, LOCAL)

    # ---- SchedulerScriptAdapter._substitute_parallel_command ------------------
    fn = find_method(SCHED, sched, "SchedulerScriptAdapter", "_substitute_parallel_command")
    params(SCHED, fn, ["self", "step_cmd", "**kwargs"])
    w("(* SchedulerScriptAdapter._substitute_parallel_command; [par] is the adapter's get_parallelize_command *)")
    w(method(SCHED, "sched", fn,
             "Definition substitute_gen (par : dict -> val -> val -> res str) (step_cmd : str) (kwargs : dict) : res str :=",
             {"step_cmd": "str", "kwargs": "dict"}, "par", "str"))
    w("")
    # ---- SchedulerScriptAdapter.get_scheduler_command --------------------------
    fn = find_method(SCHED, sched, "SchedulerScriptAdapter", "get_scheduler_command")
    params(SCHED, fn, ["self", "step"])
    w("(* SchedulerScriptAdapter.get_scheduler_command *)")
    w(method(SCHED, "sched", fn,
             "Definition scheduler_command_gen (par : dict -> val -> val -> res str) (st : step) : res (bool * str * str) :=",
             {}, "par", "sched3"))
    w("")
    # ---- SlurmScriptAdapter ------------------------------------------------------
    fn = find_method(SLURM, slurm, "SlurmScriptAdapter", "get_header")
    params(SLURM, fn, ["self", "step"])
    w("(* SlurmScriptAdapter.get_header; [batch_] is self._batch, [exec_] is self._exec *)")
    w(method(SLURM, "slurm", fn,
             "Definition slurm_get_header_gen (batch_ : dict) (exec_ : val) (st : step) : res str :=",
             {}, None, "str"))
    w("")
    fn = find_method(SLURM, slurm, "SlurmScriptAdapter", "get_parallelize_command")
    params(SLURM, fn, ["self", "procs", "nodes", "**kwargs"])
    w("(* SlurmScriptAdapter.get_parallelize_command *)")
    w(method(SLURM, "slurm", fn,
             "Definition slurm_par_gen (kwargs : dict) (procs nodes : val) : res str :=",
             {"procs": "val", "nodes": "val", "kwargs": "dict"}, None, "str"))
    w("")
    fn = find_method(SLURM, slurm, "SlurmScriptAdapter", "_write_script")
    params(SLURM, fn, ["self", "ws_path", "step"])
    w("(* SlurmScriptAdapter._write_script *)")
    w(method(SLURM, "slurm", fn,
             "Definition slurm_write_script_gen (batch_ : dict) (exec_ : val) (st : step) : res script :=",
             {"files": "files"}, "slurm_par_gen", "script", init="let files := [] : files in\n"))
    w("")
    # ---- LocalScriptAdapter ------------------------------------------------------
    fn = find_method(LOCAL, local, "LocalScriptAdapter", "_write_script")
    params(LOCAL, fn, ["self", "ws_path", "step"])
    w("(* LocalScriptAdapter._write_script *)")
    w(method(LOCAL, "local", fn,
             "Definition local_write_script_gen (exec_ : val) (st : step) : res script :=",
             {"files": "files"}, None, "script", init="let files := [] : files in\n"))
    # ---- LSFScriptAdapter ----------------------------------------------------------
    lsf = parse(repo, LSF)
    fn = find_method(LSF, lsf, "LSFScriptAdapter", "get_header")
    params(LSF, fn, ["self", "step"])
    w("")
    w("(* LSFScriptAdapter.get_header *)")
    w(method(LSF, "lsf", fn,
             "Definition lsf_get_header_gen (batch_ : dict) (exec_ : val) (st : step) : res str :=",
             {}, None, "str"))
    w("")
    fn = find_method(LSF, lsf, "LSFScriptAdapter", "get_parallelize_command")
    params(LSF, fn, ["self", "procs", "nodes", "**kwargs"])
    w("(* LSFScriptAdapter.get_parallelize_command *)")
    w(method(LSF, "lsf", fn,
             "Definition lsf_par_gen (kwargs : dict) (procs nodes : val) : res str :=",
             {"procs": "val", "nodes": "val", "kwargs": "dict"}, None, "str"))
    w("")
    fn = find_method(LSF, lsf, "LSFScriptAdapter", "_write_script")
    params(LSF, fn, ["self", "ws_path", "step"])
    w("(* LSFScriptAdapter._write_script *)")
    w(method(LSF, "lsf", fn,
             "Definition lsf_write_script_gen (batch_ : dict) (exec_ : val) (st : step) : res script :=",
             {"files": "files"}, "lsf_par_gen", "script", init="let files := [] : files in\n"))
    # ---- FluxScriptAdapter ---------------------------------------------------------
    flux = parse(repo, FLUX)
    w("")
    fn = find_method(FLUX, flux, "FluxScriptAdapter", "_convert_walltime_to_seconds")
    params(FLUX, fn, ["self", "walltime"])
    w("(* FluxScriptAdapter._convert_walltime_to_seconds: an int, or a float (modelled on integers) *)")
    w(method(FLUX, "flux", fn,
             "Definition flux_convert_walltime_gen (walltime : val) : res num :=",
             {"walltime": "val"}, None, "num"))
    w("")
    fn = find_method(FLUX, flux, "FluxScriptAdapter", "_write_script")
    params(FLUX, fn, ["self", "ws_path", "step"])
    w("(* FluxScriptAdapter._write_script; [get_header] and [par] are the adapter's get_header and")
    w("   get_parallelize_command (they go through the version-specific flux interface, modelled by hand) *)")
    w(method(FLUX, "flux", fn,
             "Definition flux_write_script_gen (get_header : step -> res str) (par : dict -> val -> val -> res str)"
             " (exec_ : val) (st : step) : res script :=",
             {"files": "files"}, "par", "script", init="let files := [] : files in\n"))
    return {OUT: "\n".join(out) + "\n"}

"""T-code: regenerate the Gallina text of the decision logic of
maestrowf/datastructures/core/executiongraph.py (Exec/ExecGen.v).

A fail-closed statement-level translator over the Python `ast`.  It knows a
fixed set of statement / condition templates (each maps to one application of
a hand-written, lemma-equipped combinator of Exec/ExecBase.v) and a fixed set
of structural frames (the retry `while`, the report loop, the two sweep loops,
the staging loop, the slot arithmetic, the launch loop).  Anything else raises
NotTranslatable -- never a guess.  Logging calls are dropped; timing fields are
not modelled.

The meaning of the templates is validated on every run by the correspondence
check (the generated model is what T-corr evaluates against the real class).
"""
import ast
import os

from translate.regen import NotTranslatable  # noqa

SRC = "maestrowf/datastructures/core/executiongraph.py"

STATES = {"INITIALIZED", "PENDING", "WAITING", "RUNNING", "FINISHING", "FINISHED", "QUEUED", "FAILED",
          "INCOMPLETE", "HWFAILURE", "TIMEDOUT", "UNKNOWN", "CANCELLED", "NOTFOUND", "DRYRUN"}
STUDY = {"FINISHED": "SFINISHED", "RUNNING": "SRUNNING", "FAILURE": "SFAILURE", "CANCELLED": "SCANCELLED"}


import re
_CTX = re.compile(r", (?:Load|Store|Del)\(\)")


def bad(node, why):
    raise NotTranslatable("%s: line %s: %s" % (SRC, getattr(node, "lineno", "?"), why))


def D(node):
    """Canonical text of an ast node (position-free)."""
    return _CTX.sub("", ast.dump(node, annotate_fields=False))


def P(src, mode="eval"):
    t = ast.parse(src, mode=mode)
    return D(t.body if mode == "eval" else t.body[0])


def is_attr(node, path):
    """node is the attribute chain a.b.c given as 'a.b.c'"""
    parts = path.split(".")
    for p in reversed(parts[1:]):
        if not (isinstance(node, ast.Attribute) and node.attr == p):
            return False
        node = node.value
    return isinstance(node, ast.Name) and node.id == parts[0]


def is_logging(st):
    if isinstance(st, ast.Expr) and isinstance(st.value, ast.Call):
        f = st.value.func
        if isinstance(f, ast.Attribute) and isinstance(f.value, ast.Name) and \
                f.value.id in ("LOGGER", "logging") and \
                f.attr in ("debug", "info", "warning", "error", "critical", "exception"):
            return True
    return False


def is_doc(st):
    return isinstance(st, ast.Expr) and isinstance(st.value, ast.Constant) and isinstance(st.value.value, str)


class Ctx:
    """Translation context of one frame."""

    def __init__(self, node_exprs, rec_exprs, status_var=None, drop=(), tail="s", accs=None):
        self.node_exprs = [P(e) for e in node_exprs]     # python expressions denoting the node x
        self.rec_exprs = [P(e) for e in rec_exprs]       # python expressions denoting values[x]
        self.status_var = status_var                     # name of the report variable (option State)
        self.drop = [P(s, "exec") for s in drop]         # statements with no model effect in this frame
        self.tail = tail
        self.accs = accs or {}                           # python set variable -> Gallina accumulator
        self.binds = {}                                  # symbolic assignments (resolved_set)
        self.rec_level = False                           # inside a _StepRecord method
        self.state_arg = None                            # name of a State-typed parameter

    def is_node(self, e):
        return D(e) in self.node_exprs

    def is_rec(self, e):
        return D(e) in self.rec_exprs


# ----------------------------------------------------------------------------
# conditions
# ----------------------------------------------------------------------------
def state_of(e):
    if isinstance(e, ast.Attribute) and is_attr(e.value, "State") and e.attr in STATES:
        return e.attr
    return None


def cond(cx, e):
    """Translate a boolean Python expression; returns Gallina text."""
    if isinstance(e, ast.BoolOp):
        op = " && " if isinstance(e.op, ast.And) else " || "
        parts = [cond(cx, v) for v in e.values]
        if isinstance(e.op, ast.Or):
            parts = ["(%s)" % p if " " in p else p for p in parts]
        return op.join(parts)
    if isinstance(e, ast.UnaryOp) and isinstance(e.op, ast.Not):
        o = e.operand
        # not self._dependencies[key]
        if isinstance(o, ast.Subscript) and is_attr(o.value, "self._dependencies") and cx.is_node(o.slice):
            return "is_nil (getdeps s x)"
        if is_attr(o, "self.in_progress"):
            return "is_nil (inprog s)"
        # not set(self.values.keys()) - resolved_set
        if isinstance(o, ast.BinOp) and isinstance(o.op, ast.Sub) and \
                D(o.left) == P("set(self.values.keys())") and isinstance(o.right, ast.Name) and \
                o.right.id in cx.binds:
            return "subset (seq 0 (length g)) (%s)" % cx.binds[o.right.id]
        inner = cond(cx, o)
        return "negb (%s)" % inner if " " in inner else "negb %s" % inner
    if isinstance(e, ast.Compare) and len(e.ops) == 1:
        l, op, r = e.left, e.ops[0], e.comparators[0]
        if isinstance(op, ast.In) and isinstance(l, ast.Name) and l.id == cx.status_var and \
                isinstance(r, (ast.Tuple, ast.List, ast.Set)) and r.elts and all(state_of(x) for x in r.elts):
            return " || ".join("oeqb status %s" % state_of(x) for x in r.elts)
        st = state_of(r)
        if isinstance(op, ast.Eq) and st:
            if isinstance(l, ast.Name) and l.id == cx.status_var:
                return "oeqb status %s" % st
            if isinstance(l, ast.Attribute) and l.attr == "status" and cx.is_rec(l.value):
                return "state_eqb (status (getrec s x)) %s" % st
        # comparisons of counters / limits / lengths
        try:
            a, b = nat_expr(l, {}), nat_expr(r, {})
            if " " in a and not a.startswith(("restarts (", "rlimit (", "throttle c", "length (")):
                a = "(%s)" % a
            if " " in b and not b.startswith(("restarts (", "rlimit (", "throttle c", "length (")):
                b = "(%s)" % b
            fmt = {ast.Eq: "%s =? %s", ast.Lt: "%s <? %s", ast.LtE: "%s <=? %s",
                   ast.NotEq: "negb (%s =? %s)"}.get(type(op))
            if fmt:
                return fmt % (a, b)
            if isinstance(op, ast.Gt):
                return "%s <? %s" % (b, a)
            if isinstance(op, ast.GtE):
                return "%s <=? %s" % (b, a)
        except NotTranslatable:
            pass
        if isinstance(op, ast.In) and cx.is_node(l) and is_attr(r, "self.completed_steps"):
            return "mem x (completed s)"
        if isinstance(op, ast.NotIn) and cx.is_node(l) and is_attr(r, "self.ready_steps"):
            return "negb (mem x (ready s))"
        if isinstance(op, ast.Gt) and D(r) == P("0") and isinstance(l, ast.Call) and \
                isinstance(l.func, ast.Name) and l.func.id == "len" and len(l.args) == 1:
            if is_attr(l.args[0], "self.cancelled_steps"):
                return "negb (is_nil (cancelled s))"
            if is_attr(l.args[0], "self.failed_steps"):
                return "negb (is_nil (failed s))"
        if isinstance(op, ast.Eq) and isinstance(l, ast.Name) and l.id == "retcode":
            if D(r) == P("SubmissionCode.OK"):
                return "ok"
            if D(r) == P("JobStatusCode.ERROR"):
                return "qcode_eqb q QERROR"
            if D(r) == P("JobStatusCode.OK"):
                return "qcode_eqb q QOK"
    if is_attr(e, "self.dry_run"):
        return "dry c"
    if is_attr(e, "self.to_be_scheduled") and cx.rec_level:
        return "scheduled (attr g x)"
    if is_attr(e, "self.is_canceled"):
        return "canceled s"
    if isinstance(e, ast.Name) and e.id == "restart":
        return "restart"
    if isinstance(e, ast.Attribute) and cx.is_rec(e.value):
        if e.attr == "can_restart":
            return "has_restart (attr g x)"
        if e.attr == "is_local_step":
            return "negb (scheduled (attr g x))"
    bad(e, "unknown condition " + ast.unparse(e))


# ----------------------------------------------------------------------------
# simple statements
# ----------------------------------------------------------------------------
SETS = {"completed_steps": "completed", "in_progress": "inprog", "failed_steps": "failed",
        "cancelled_steps": "cancelled"}


def simple(cx, st):
    """One effect statement -> 'let V := E in' (returns (var, expr)) or None."""
    if isinstance(st, ast.Expr) and isinstance(st.value, ast.Call):
        c = st.value
        f = c.func
        if isinstance(f, ast.Attribute):
            # record.mark_end(State.X) / self.values[node].mark_end(State.X)
            if f.attr == "mark_end" and cx.is_rec(f.value) and len(c.args) == 1 and state_of(c.args[0]):
                return "s", "rec_set_status x %s s" % state_of(c.args[0])
            if f.attr == "mark_running" and cx.is_rec(f.value) and not c.args:
                return "s", "rec_set_status x RUNNING s"
            # self.<set>.add/remove/discard(x)
            if isinstance(f.value, ast.Attribute) and is_attr(f.value.value, "self") and \
                    f.value.attr in SETS and len(c.args) == 1 and cx.is_node(c.args[0]):
                g = SETS[f.value.attr]
                if f.attr == "add":
                    return "s", "%s_add x s" % g
                if f.attr in ("remove", "discard") and g == "inprog":
                    return "s", "inprog_remove x s"
            if is_attr(f.value, "self.ready_steps") and f.attr == "append" and len(c.args) == 1 and \
                    cx.is_node(c.args[0]):
                return "s", "ready_push x s"
            # <acc>.update(self.bfs_subtree(x)[0]) / <acc>.remove(x)
            if isinstance(f.value, ast.Name) and f.value.id in cx.accs and len(c.args) == 1:
                a = cx.accs[f.value.id]
                if f.attr == "update":
                    u = c.args[0]
                    if isinstance(u, ast.Subscript) and D(u.slice) == P("0") and isinstance(u.value, ast.Call) and \
                            is_attr(u.value.func, "self.bfs_subtree") and len(u.value.args) == 1 and \
                            cx.is_node(u.value.args[0]):
                        return a, "set_union (bfs_subtree g x) %s" % a
                if f.attr == "remove" and cx.is_node(c.args[0]):
                    return a, "srem x %s" % a
            # self._execute_record(record, adapter[, restart=True])
            if is_attr(f, "self._execute_record") and len(c.args) == 2 and cx.is_rec(c.args[0]) and \
                    isinstance(c.args[1], ast.Name) and c.args[1].id == "adapter":
                if not c.keywords:
                    return "s", "execute_record_gen c g x false s"
                if len(c.keywords) == 1 and c.keywords[0].arg == "restart" and \
                        D(c.keywords[0].value) == P("True"):
                    return "s", "execute_record_gen c g x true s"
            # record.generate_script(adapter, self._tmp_dir)
            if f.attr == "generate_script" and cx.is_rec(f.value) and \
                    [D(a) for a in c.args] == [P("adapter"), P("self._tmp_dir")]:
                return "s", "emit (EGen x) s"
    if isinstance(st, ast.Expr) and isinstance(st.value, ast.Call) and not st.value.args and \
            not st.value.keywords and cx.rec_level:
        if is_attr(st.value.func, "self.mark_submitted"):
            return "s", "mark_submitted_gen x s"
        if is_attr(st.value.func, "self.mark_running"):
            return "s", "mark_running_gen x s"
    if isinstance(st, ast.Assign) and len(st.targets) == 1 and cx.rec_level:
        # retcode, jobid = self._execute(adapter, self.script | self.restart_script)
        if D(st.targets[0]) == P("retcode, jobid") and isinstance(st.value, ast.Call) and \
                is_attr(st.value.func, "self._execute") and len(st.value.args) == 2 and \
                D(st.value.args[0]) == P("adapter") and not st.value.keywords:
            if is_attr(st.value.args[1], "self.script"):
                return "'(ok, j, s)", "rec__execute_gen g x Main s"
            if is_attr(st.value.args[1], "self.restart_script"):
                return "'(ok, j, s)", "rec__execute_gen g x Restart s"
        # srecord = adapter.submit(self.step, script, self.workspace.value)  (scheduler / local adapter)
        if D(st.targets[0]) == P("srecord") and isinstance(st.value, ast.Call) and \
                [D(a) for a in st.value.args] == [P("self.step"), P("script"), P("self.workspace.value")] and \
                not st.value.keywords:
            if is_attr(st.value.func, "adapter.submit"):
                return "'(ok, j, s)", "adapter_submit x k true s"
            if is_attr(st.value.func, "ladapter.submit"):
                return "'(ok, j, s)", "adapter_submit x k false s"
    if isinstance(st, ast.Expr) and isinstance(st.value, ast.Call) and cx.rec_level and \
            is_attr(st.value.func, "self.jobid.append") and [D(a) for a in st.value.args] == [P("jobid")]:
        return "s", "rec_push_job x j s"
    if isinstance(st, ast.Assign) and len(st.targets) == 1:
        t = st.targets[0]
        if is_attr(t, "self.status") and isinstance(st.value, ast.Name) and st.value.id == cx.state_arg:
            return "s", "rec_set_status x v s"
        if is_attr(t, "self.status") and state_of(st.value):
            return "s", "rec_set_status x %s s" % state_of(st.value)
        if is_attr(t, "self.is_canceled") and D(st.value) == P("True"):
            return "s", "set_canceled s true"
    if isinstance(st, ast.AugAssign) and is_attr(st.target, "self._num_restarts") and \
            isinstance(st.op, ast.Add) and D(st.value) == P("1"):
        return "s", "rec_inc_restarts x s"
    return None


# ----------------------------------------------------------------------------
# blocks
# ----------------------------------------------------------------------------
def effective(cx, stmts):
    out = []
    for st in stmts:
        if is_logging(st) or is_doc(st) or isinstance(st, ast.Pass):
            continue
        if D(st) in cx.drop:
            continue
        out.append(st)
    return out


def terminates(cx, stmts):
    stmts = effective(cx, stmts)
    if not stmts:
        return False
    last = stmts[-1]
    if isinstance(last, (ast.Return, ast.Continue, ast.Raise)):
        return True
    if isinstance(last, ast.If):
        return terminates(cx, last.body) and terminates(cx, last.orelse)
    return False


def ret_value(cx, st):
    if isinstance(st, ast.Continue) or (isinstance(st, ast.Return) and st.value is None):
        return cx.tail
    v = st.value
    if D(v) == P("True"):
        return "(true, s)"
    if D(v) == P("False"):
        return "(false, s)"
    if isinstance(v, ast.Attribute) and is_attr(v.value, "StudyStatus") and v.attr in STUDY:
        return STUDY[v.attr]
    bad(st, "unknown return value")


def block(cx, stmts, ind, special=None):
    """Translate a statement list in tail position; returns lines."""
    stmts = effective(cx, stmts)
    pad = "  " * ind
    lines = []
    i = 0
    while i < len(stmts):
        st = stmts[i]
        rest = stmts[i + 1:]
        if special:
            r = special(cx, stmts, i, ind)
            if r is not None:
                new_lines, consumed = r
                lines += new_lines
                i += consumed
                continue
        if isinstance(st, (ast.Return, ast.Continue)):
            if rest:
                bad(rest[0], "statement after return/continue")
            lines.append(pad + ret_value(cx, st))
            return lines
        if isinstance(st, ast.If):
            pre = []
            t = st.test
            if isinstance(t, ast.Call) and isinstance(t.func, ast.Attribute) and t.func.attr == "mark_restart" \
                    and cx.is_rec(t.func.value) and not t.args:
                pre = [pad + "let '(b, s) := mark_restart_gen g x s in"]
                c = "b"
            else:
                c = cond(cx, t)
            if not rest or terminates(cx, st.body):
                els = list(st.orelse) + ([] if not terminates(cx, st.body) else list(rest))
                if not terminates(cx, st.body) and rest:
                    bad(st, "internal")
                lines += pre
                lines.append(pad + "if %s then" % c)
                lines += block(cx, st.body, ind + 1, special)
                lines += else_part(cx, els, ind, special)
                return lines
            # join form: exactly one effect on s, no else
            body = effective(cx, st.body)
            if not st.orelse and len(body) == 1 and not pre:
                r = simple(cx, body[0])
                if r and r[0] == "s":
                    lines.append(pad + "let s := if %s then %s else s in" % (c, r[1]))
                    i += 1
                    continue
            bad(st, "if statement followed by code is only supported with a single effect and no else")
        r = simple(cx, st)
        if r is None:
            bad(st, "unknown statement " + ast.unparse(st).split("\n")[0])
        lines.append(pad + "let %s := %s in" % r)
        i += 1
    lines.append(pad + cx.tail)
    return lines


def else_part(cx, els, ind, special):
    pad = "  " * ind
    e = effective(cx, els)
    if e and isinstance(e[0], ast.If) and (len(e) == 1 or terminates(cx, e[0].body)) and not (
            isinstance(e[0].test, ast.Call)) and (special is None or special(cx, e, 0, ind + 1) is None):
        sub = block(cx, e, ind, special)
        # chain:  else if ...
        return [pad + "else " + sub[0].strip()] + sub[1:]
    return [pad + "else"] + block(cx, els, ind + 1, special)


# ----------------------------------------------------------------------------
# frames
# ----------------------------------------------------------------------------
def find_class(tree, name):
    for n in tree.body:
        if isinstance(n, ast.ClassDef) and n.name == name:
            return n
    bad(tree, "class %s not found" % name)


def find_method(cls, name):
    for n in cls.body:
        if isinstance(n, ast.FunctionDef) and n.name == name:
            return n
    bad(cls, "method %s.%s not found" % (cls.name, name))


def expect(node, src, what):
    if D(node) != P(src, "exec"):
        bad(node, "%s is no longer `%s`" % (what, src.strip().split("\n")[0]))


def gen_mark_restart(rec_cls):
    fn = find_method(rec_cls, "mark_restart")
    cx = Ctx(["self.name"], ["self"], tail="(s)")
    body = block(cx, fn.body, 1)
    if not terminates(cx, fn.body):
        bad(fn, "mark_restart must return on every path")
    return ["(* _StepRecord.mark_restart *)",
            "Definition mark_restart_gen (g : graph) (x : nat) (s : st) : bool * st :="] + body


WHILE_SRC = """
while retcode != SubmissionCode.OK and num_restarts < self._submission_attempts:
    if not restart:
        retcode = record.execute(adapter)
    else:
        record.generate_script(adapter, self._tmp_dir)
        retcode = record.restart(adapter)
    num_restarts += 1
    sleep((random.random() + 1) * num_restarts)
"""

SWEEP_SRC = """
for node in %s:
    self.%s.add(node)
    self.values[node].mark_end(State.%s)
"""


def strip_logging(node):
    """copy of a compound statement with logging calls removed (for structural comparison)"""
    class T(ast.NodeTransformer):
        def generic_visit(self, n):
            super().generic_visit(n)
            for f in ("body", "orelse"):
                b = getattr(n, f, None)
                if isinstance(b, list):
                    nb = [s for s in b if not (is_logging(s) or is_doc(s))]
                    setattr(n, f, nb)
            return n
    import copy
    return T().visit(copy.deepcopy(node))


def same(node, src):
    return D(strip_logging(node)) == P(src.strip() + "\n", "exec")


def gen_execute_record(graph_cls):
    fn = find_method(graph_cls, "_execute_record")
    if [a.arg for a in fn.args.args] != ["self", "record", "adapter", "restart"] or \
            [D(d) for d in fn.args.defaults] != [P("False")]:
        bad(fn, "_execute_record signature changed")
    cx = Ctx(["record.name"], ["record"],
             drop=["num_restarts = 0", "retcode = None", "self._check_tmp_dir()", "record.setup_workspace()"])

    def special(cx, stmts, i, ind):
        st = stmts[i]
        pad = "  " * ind
        if isinstance(st, ast.While):
            if not same(st, WHILE_SRC):
                bad(st, "the submission retry loop no longer has the translated shape")
            return [pad + "let '(ok, s) := submit_attempts g x restart (attempts c) s in"], 1
        # path, parent = self.bfs_subtree(record.name); for node in path: ...
        if isinstance(st, ast.Assign) and D(st) == P("path, parent = self.bfs_subtree(record.name)", "exec"):
            if i + 1 < len(stmts) and same(stmts[i + 1], SWEEP_SRC % ("path", "failed_steps", "FAILED")):
                return [pad + "let s := mark_failed_list (bfs_subtree g x) s in"], 2
            bad(st, "failed-submission sweep changed")
        return None

    body = block(cx, fn.body, 1, special)
    return ["(* ExecutionGraph._execute_record *)",
            "Definition execute_record_gen (c : cfg) (g : graph) (x : nat) (restart : bool) (s : st) : st :="] + body


def ers_parts(graph_cls):
    """Split execute_ready_steps into its structural parts (fail closed)."""
    fn = find_method(graph_cls, "execute_ready_steps")
    cxd = Ctx([], [])
    st = effective(cxd, fn.body)
    if len(st) != 9:
        bad(fn, "execute_ready_steps no longer has 9 top-level statements (has %d)" % len(st))
    expect(st[0], 'adapter = ScriptAdapterFactory.get_adapter(self._adapter["type"])', "adapter lookup")
    expect(st[1], "adapter = adapter(**self._adapter)", "adapter construction")
    q = strip_logging(st[2])
    if D(q) != P("""
if not self.dry_run:
    retcode, job_status = self.check_study_status()
else:
    retcode = JobStatusCode.OK
    job_status = {}
""".strip() + "\n", "exec"):
        bad(st[2], "the status query / dry-run skip changed shape")
    d = st[3]
    if not (isinstance(d, ast.If) and D(d.test) == P("retcode == JobStatusCode.ERROR")):
        bad(d, "ERROR test is not the first thing after the query")
    eb = effective(cxd, d.body)
    # msg = ...; raise RuntimeError(msg)
    if not (len(eb) == 2 and isinstance(eb[0], ast.Assign) and isinstance(eb[1], ast.Raise)):
        bad(d, "ERROR branch no longer just raises")
    if not (len(d.orelse) == 1 and isinstance(d.orelse[0], ast.If) and
            D(d.orelse[0].test) == P("retcode == JobStatusCode.OK") and not d.orelse[0].orelse):
        bad(d, "dispatch is no longer guarded by retcode == OK only")
    disp = effective(cxd, d.orelse[0].body)
    stage = st[4]
    if not (isinstance(stage, ast.For) and D(stage.target) == P("key") and
            D(stage.iter) == P("self.values.keys()") and not stage.orelse):
        bad(stage, "staging loop changed")
    avail = st[5]
    launch = st[6]
    if not (isinstance(launch, ast.For) and D(launch.iter) == P("range(0, _available)") and not launch.orelse):
        bad(launch, "launch loop changed")
    expect(st[7], "completion_status = self._check_study_completion()", "completion call")
    expect(st[8], "return completion_status", "return")
    return disp, stage, avail, launch


def gen_dispatch(disp):
    if len(disp) != 5:
        bad(disp[0], "dispatch block no longer has 5 statements")
    expect(disp[0], "cleanup_steps = set()", "cleanup set")
    expect(disp[1], "cancel_steps = set()", "cancel set")
    loop = disp[2]
    if not (isinstance(loop, ast.For) and D(loop.target) == P("name, status") and
            D(loop.iter) == P("job_status.items()") and not loop.orelse):
        bad(loop, "report loop changed")
    if not same(disp[3], SWEEP_SRC % ("cleanup_steps", "failed_steps", "FAILED")):
        bad(disp[3], "failed sweep loop changed")
    if not same(disp[4], SWEEP_SRC % ("cancel_steps", "cancelled_steps", "CANCELLED")):
        bad(disp[4], "cancelled sweep loop changed")
    cx = Ctx(["name", "record.name"], ["record"], status_var="status", drop=["record = self.values[name]"],
             tail="(s, cl, ca)", accs={"cleanup_steps": "cl", "cancel_steps": "ca"})
    body = block(cx, loop.body, 1)
    hr = ["(* ExecutionGraph.execute_ready_steps: body of `for name, status in job_status.items()` *)",
          "Definition handle_report_gen (c : cfg) (g : graph) (acc : st * list nat * list nat)",
          "    (r : nat * option State) : st * list nat * list nat :=",
          "  let '(s, cl, ca) := acc in",
          "  let '(x, status) := r in"] + body
    dg = ["(* ExecutionGraph.execute_ready_steps: dispatch + the two sweep loops *)",
          "Definition dispatch_gen (c : cfg) (g : graph) (reps : list (nat * option State)) (s : st) : st :=",
          "  let '(s, cl, ca) := fold_left (handle_report_gen c g) reps (s, [], []) in",
          "  let s := mark_failed_list cl s in",
          "  let s := mark_cancelled_list ca s in",
          "  s"]
    return hr, dg


PRUNE_SRC = ["s_completed = list(filter(lambda x: x in self.completed_steps, self._dependencies[key]))",
             "self._dependencies[key] = self._dependencies[key] - set(s_completed)"]


def gen_stage(stage):
    cx = Ctx(["key"], ["record"], drop=["record = self.values[key]"])

    def special(cx, stmts, i, ind):
        st = stmts[i]
        if isinstance(st, ast.Assign) and D(st) == P(PRUNE_SRC[0], "exec"):
            if i + 1 < len(stmts) and D(stmts[i + 1]) == P(PRUNE_SRC[1], "exec"):
                return ["  " * ind + "let s := deps_prune x s in"], 2
            bad(st, "dependency pruning changed")
        return None

    body = block(cx, stage.body, 1, special)
    return ["(* ExecutionGraph.execute_ready_steps: body of `for key in self.values.keys()` *)",
            "Definition stage_node_gen (g : graph) (s : st) (x : nat) : st :="] + body


def nat_expr(e, env):
    if isinstance(e, ast.Name) and e.id in env:
        return env[e.id]
    if isinstance(e, ast.Constant) and isinstance(e.value, int) and 0 <= e.value < 100:
        return str(e.value)
    if is_attr(e, "self._submission_throttle"):
        return "throttle c"
    if is_attr(e, "self._num_restarts"):
        return "restarts (getrec s x)"
    if is_attr(e, "self.restart_limit"):
        return "rlimit (attr g x)"
    if isinstance(e, ast.Call) and isinstance(e.func, ast.Name) and e.func.id == "len" and len(e.args) == 1:
        if is_attr(e.args[0], "self.ready_steps"):
            return "length (ready s)"
        if is_attr(e.args[0], "self.in_progress"):
            return "length (inprog s)"
    if isinstance(e, ast.Call) and isinstance(e.func, ast.Name) and e.func.id in ("max", "min") and \
            len(e.args) == 2 and not e.keywords:
        a, b = [nat_expr(x, env) for x in e.args]
        f = "Nat.max" if e.func.id == "max" else "Nat.min"
        return "%s %s %s" % (f, a if " " not in a else "(%s)" % a, b if " " not in b else "(%s)" % b)
    if isinstance(e, ast.BinOp) and isinstance(e.op, ast.Sub):
        # python int subtraction; the model's truncated subtraction agrees under the max(0, .) that must follow
        return "%s - %s" % (nat_expr(e.left, env), nat_expr(e.right, env))
    bad(e, "unknown integer expression " + ast.unparse(e))


def gen_available(avail):
    cx = Ctx([], [])
    if not (isinstance(avail, ast.If) and D(avail.test) == P("self._submission_throttle == 0")):
        bad(avail, "slot arithmetic no longer starts with the throttle == 0 test")

    def branch(stmts):
        env = {}
        for st in effective(cx, stmts):
            if not (isinstance(st, ast.Assign) and D(st.targets[0]) == P("_available")):
                bad(st, "unknown statement in the slot arithmetic")
            env["_available"] = nat_expr(st.value, env)
        if "_available" not in env:
            bad(avail, "_available not assigned")
        return env["_available"]

    a, b = branch(avail.body), branch(avail.orelse)
    # a raw difference that is not clamped would not be a nat: demand the clamp
    if " - " in b and "Nat.max 0" not in b:
        bad(avail, "slot difference is not clamped with max(0, .)")
    return ["(* ExecutionGraph.execute_ready_steps: slot arithmetic *)",
            "Definition available_gen (c : cfg) (s : st) : nat :=",
            "  if throttle c =? 0 then",
            "    " + a,
            "  else",
            "    " + b]


def gen_launch(launch):
    body = effective(Ctx([], []), launch.body)
    if not body:
        bad(launch, "empty launch loop")
    expect(body[0], "_record = self.values[self.ready_steps.popleft()]", "pop of the ready queue")
    cx = Ctx(["_record.name"], ["_record"])
    inner = block(cx, body[1:], 2)
    return ["(* ExecutionGraph.execute_ready_steps: body of `for i in range(0, _available)` *)",
            "Definition launch_body_gen (c : cfg) (g : graph) (s : st) : st :=",
            "  match ready s with",
            "  | [] => s",
            "  | x :: rest =>",
            "    let s := set_ready s rest in"] + inner + ["  end"]


def gen_completion(graph_cls):
    fn = find_method(graph_cls, "_check_study_completion")
    cx = Ctx([], [], tail="(* unreachable *)")
    stmts = effective(cx, fn.body)
    # resolved_set = self.completed_steps | self.failed_steps | self.cancelled_steps  (symbolic binding)
    out = []
    for st in stmts:
        if isinstance(st, ast.Assign) and D(st.targets[0]) == P("resolved_set"):
            if D(st.value) != P("self.completed_steps | self.failed_steps | self.cancelled_steps"):
                bad(st, "resolved_set is no longer completed | failed | cancelled")
            cx.binds["resolved_set"] = "completed s ++ failed s ++ cancelled s"
            continue
        out.append(st)
    if not terminates(cx, out):
        bad(fn, "_check_study_completion must return on every path")
    body = block(cx, out, 1)
    return ["(* ExecutionGraph._check_study_completion *)",
            "Definition completion_gen (g : graph) (s : st) : SStatus :="] + body


JOBLIST_SRC = """
for step in self.in_progress:
    jobid = self.values[step].jobid[-1]
    joblist.append(jobid)
"""


def gen_cancel(graph_cls):
    fn = find_method(graph_cls, "cancel_study")
    cx = Ctx([], [])
    st = effective(cx, fn.body)
    if len(st) < 6:
        bad(fn, "cancel_study changed shape")
    expect(st[0], "joblist = []", "cancel job list")
    if not same(st[1], JOBLIST_SRC):
        bad(st[1], "cancel job list is no longer the last job id of every in-progress step")
    expect(st[2], 'adapter = ScriptAdapterFactory.get_adapter(self._adapter["type"])', "adapter lookup")
    expect(st[3], "adapter = adapter(**self._adapter)", "adapter construction")
    expect(st[4], "crecord = adapter.cancel_jobs(joblist)", "cancel call")
    expect(st[5], "self.is_canceled = True", "cancel flag")
    # the rest only logs and returns the adapter's code
    for s_ in st[6:]:
        s2 = strip_logging(s_)
        if isinstance(s2, ast.If):
            def only_pass(n):
                return all(isinstance(b, ast.If) and only_pass(b) for b in n.body + n.orelse) if (n.body or n.orelse) else True
            if not only_pass(s2):
                bad(s_, "cancel_study does more than log after setting the flag")
        elif not (isinstance(s2, ast.Return) and D(s2.value) == P("crecord.cancel_status")):
            bad(s_, "unknown statement in cancel_study")
    return ["(* ExecutionGraph.cancel_study *)",
            "Definition cancel_study_gen (s : st) : st :=",
            "  let s := emit (ECancel (map (lastjob s) (inprog s))) s in",
            "  let s := set_canceled s true in",
            "  s"]


CHECK_SRC = """
def check_study_status(self):
    joblist = []
    jobmap = {}
    for step in [_ for _ in self.values if _ in self.in_progress]:
        jobid = self.values[step].jobid[-1]
        joblist.append(jobid)
        jobmap[jobid] = step
    adapter = ScriptAdapterFactory.get_adapter(self._adapter["type"])
    adapter = adapter(**self._adapter)
    retcode, job_status = adapter.check_jobs(joblist)
    step_status = {jobmap[jobid]: status for jobid, status in job_status.items()}
    if retcode == JobStatusCode.OK:
        return retcode, step_status
    elif retcode == JobStatusCode.NOJOBS:
        return retcode, step_status
    else:
        msg = "Unknown Error (Code = {})".format(retcode)
        return retcode, step_status
"""


def check_query(graph_cls):
    fn = find_method(graph_cls, "check_study_status")
    f2 = strip_logging(fn)
    f2.decorator_list = []
    f2.returns = None
    if D(f2) != P(CHECK_SRC.strip() + "\n", "exec"):
        bad(fn, "check_study_status no longer queries exactly the last job id of every in-progress step "
                "and returns the adapter's code with the per-step dictionary")


TIME_DROPS = ["""
if not self._submit_time:
    self._submit_time = round_datetime_seconds(datetime.now())
else:
    LOGGER.warning("Cannot set the submission time of '%s' because it has already been set.", self.name)
""", """
if not self._start_time:
    self._start_time = round_datetime_seconds(datetime.now())
""", """
if not self._end_time:
    self._end_time = round_datetime_seconds(datetime.now())
"""]


def rec_ctx(tail, drop=()):
    cx = Ctx(["self.name"], ["self"], tail=tail, drop=list(drop))
    cx.rec_level = True
    # time stamps are not modelled: the exact guarded assignments are dropped, anything else is not
    cx.drop += [P(s.strip() + "\n", "exec") for s in TIME_DROPS]
    return cx


def gen_record_level(rec_cls, graph_cls):
    out = []
    for name, st in (("mark_submitted", None), ("mark_running", None), ("mark_end", "state")):
        fn = find_method(rec_cls, name)
        if [a.arg for a in fn.args.args] != ["self"] + ([st] if st else []):
            bad(fn, "%s signature changed" % name)
        cx = rec_ctx("s")
        cx.state_arg = st
        body = block(cx, fn.body, 1)
        out.append(["(* _StepRecord.%s *)" % name,
                    "Definition %s_gen (x : nat) %s(s : st) : st :=" % (name, "(v : State) " if st else "")] + body)
    # _execute
    fn = find_method(rec_cls, "_execute")
    if [a.arg for a in fn.args.args] != ["self", "adapter", "script"]:
        bad(fn, "_execute signature changed")
    eff = effective(rec_ctx("s"), fn.body)
    if len(eff) != 4:
        bad(fn, "_execute changed shape")
    expect(eff[1], "retcode = srecord.submission_code", "_execute result code")
    expect(eff[2], "jobid = srecord.job_identifier", "_execute job id")
    expect(eff[3], "return retcode, jobid", "_execute return")
    cx = rec_ctx("(ok, j, s)", drop=['ladapter = ScriptAdapterFactory.get_adapter("local")()'])
    body = block(cx, [eff[0]], 1)
    out.append(["(* _StepRecord._execute *)",
                "Definition rec__execute_gen (g : graph) (x : nat) (k : kind) (s : st) : bool * nat * st :="] + body)
    # execute / restart
    for name in ("execute", "restart"):
        fn = find_method(rec_cls, name)
        if [a.arg for a in fn.args.args] != ["self", "adapter"]:
            bad(fn, "%s signature changed" % name)
        eff = effective(rec_ctx("s"), fn.body)
        if not eff or D(eff[-1]) != P("return retcode", "exec"):
            bad(fn, "%s no longer returns the submission code" % name)
        cx = rec_ctx("(ok, s)")
        body = block(cx, eff[:-1], 1)
        out.append(["(* _StepRecord.%s *)" % name,
                    "Definition rec_%s_gen (g : graph) (x : nat) (s : st) : bool * st :=" % name] + body)
    # the retry loop of _execute_record (shape already checked against WHILE_SRC by gen_execute_record)
    out.append(["(* ExecutionGraph._execute_record: body of the submission retry loop *)",
                "Definition attempt_gen (g : graph) (x : nat) (restart : bool) (s : st) : bool * st :=",
                "  if negb restart then",
                "    rec_execute_gen g x s",
                "  else",
                "    let s := emit (EGen x) s in",
                "    rec_restart_gen g x s"])
    out.append(["(* ExecutionGraph._execute_record: `while retcode != OK and num_restarts < attempts` *)",
                "Fixpoint attempts_gen (g : graph) (x : nat) (restart : bool) (n : nat) (s : st) : bool * st :=",
                "  match n with",
                "  | O => (false, s)",
                "  | S n' =>",
                "    let '(ok, s) := attempt_gen g x restart s in",
                "    if ok then (true, s) else attempts_gen g x restart n' s",
                "  end"])
    return out


CANCEL_BLOCK_SRC = """
if os.path.exists(cancel_lock_path):
    cancel_lock = FileLock(cancel_lock_path)
    try:
        with cancel_lock.acquire(timeout=10):
            dag.cancel_study()
        os.remove(cancel_lock_path)
    except Timeout:
        pass
"""

CONDUCTOR_SRC = "maestrowf/conductor.py"


def gen_monitor(repo):
    """Conductor.monitor_study: the body of the polling loop, statement by statement."""
    path = os.path.join(repo, CONDUCTOR_SRC)
    try:
        tree = ast.parse(open(path).read())
    except (OSError, SyntaxError) as e:
        raise NotTranslatable("%s: cannot parse: %s" % (CONDUCTOR_SRC, e))
    fn = find_method(find_class(tree, "Conductor"), "monitor_study")
    cx = Ctx([], [])
    st = effective(cx, fn.body)
    loops = [s for s in st if isinstance(s, ast.While)]
    if len(loops) != 1 or st[-1] is loops[0] or st.index(loops[0]) != len(st) - 2:
        bad(fn, "monitor_study is no longer `... while ...: ...; return completion_status`")
    loop = loops[0]
    if D(loop.test) != P("completion_status == StudyStatus.RUNNING") or loop.orelse:
        bad(loop, "the monitor loop no longer runs exactly while the status is RUNNING")
    expect(st[-1], "return completion_status", "monitor_study return")
    pre = [D(s) for s in st[:-2]]
    for need in ("dag = self._exec_dag", "completion_status = StudyStatus.RUNNING",
                 "cancel_lock_path = make_safe_path(self.output_path, self._cancel_lock)"):
        if P(need, "exec") not in pre:
            bad(fn, "monitor_study prologue lost `%s`" % need)
    lines = []
    seen_exec = False
    for s in effective(cx, loop.body):
        s2 = strip_logging(s)
        if D(s2) == P(CANCEL_BLOCK_SRC.strip() + "\n", "exec"):
            lines.append("  let s := if cancel_req p then cancel_study_gen s else s in")
        elif D(s2) == P("completion_status = dag.execute_ready_steps()", "exec"):
            if seen_exec:
                bad(s, "execute_ready_steps called twice per iteration")
            seen_exec = True
            lines.append("  let '(s, r) := execute_ready_steps_gen c g p s in")
        elif D(s2) in (P("dag.pickle(pkl_path)", "exec"), P("dag.write_status(os.path.split(pkl_path)[0])", "exec")):
            if not seen_exec:
                bad(s, "snapshot / status written before the poll")
        elif D(s2) == P("if completion_status == StudyStatus.RUNNING:\n    sleep(sleep_time)\n", "exec"):
            pass
        else:
            bad(s, "unknown statement in the monitor loop: " + ast.unparse(s).split("\n")[0])
    if not seen_exec:
        bad(loop, "the monitor loop no longer calls execute_ready_steps")
    return ["(* Conductor.monitor_study: one iteration of `while completion_status == StudyStatus.RUNNING` *)",
            "Definition monitor_iter_gen (c : cfg) (g : graph) (p : pin) (s : st) : st * SStatus :="] + lines + ["  (s, r)"]


HEADER2 = """(** Execution model, part 2b: the record-level methods of _StepRecord that the
    hand-written combinator [submit_attempts] (ExecBase.v) summarises.
    GENERATED by translate/tcode_exec.py from /repo's current source; the
    equality with [submit_attempts] is proved in Exec/ExecGen2Proofs.v, so a
    change of these methods breaks a proof obligation.  Do not edit by hand. *)
From MWF Require Import Exec.ExecBase Exec.ExecSubmit Exec.ExecGen.
"""


ERS_TEXT = ["(* ExecutionGraph.execute_ready_steps *)",
            "Definition execute_ready_steps_gen (c : cfg) (g : graph) (p : pin) (s : st) : st * SStatus :=",
            "  let s := if negb (dry c) then emit (ECheck (map (lastjob s) (inprog s))) s else s in",
            "  let q := if negb (dry c) then qcode p else QOK in",
            "  let reps := if negb (dry c) then reports p else [] in",
            "  if qcode_eqb q QERROR then",
            "    (s, SABORT)",
            "  else",
            "    let s := if qcode_eqb q QOK then dispatch_gen c g reps s else s in",
            "    let s := fold_left (stage_node_gen g) (seq 0 (length g)) s in",
            "    let s := Nat.iter (available_gen c s) (launch_body_gen c g) s in",
            "    (s, completion_gen g s)"]

HEADER = """(** Execution model, part 2: the decision logic of executiongraph.py.
    GENERATED by translate/tcode_exec.py from /repo's current source; the
    committed copy is the reference the proofs were developed against.
    Do not edit by hand. *)
From MWF Require Import Exec.ExecBase.
"""


def fix_tail(lines, cx_tail="(s)"):
    return lines


def generate(repo):
    path = os.path.join(repo, SRC)
    try:
        tree = ast.parse(open(path).read())
    except (OSError, SyntaxError) as e:
        raise NotTranslatable("%s: cannot parse: %s" % (SRC, e))
    rec_cls = find_class(tree, "_StepRecord")
    graph_cls = find_class(tree, "ExecutionGraph")
    check_query(graph_cls)
    disp, stage, avail, launch = ers_parts(graph_cls)
    hr, dg = gen_dispatch(disp)
    defs = [gen_mark_restart(rec_cls), gen_execute_record(graph_cls), hr, dg, gen_stage(stage),
            gen_available(avail), gen_launch(launch), gen_completion(graph_cls), gen_cancel(graph_cls), ERS_TEXT]
    text = HEADER
    for d in defs:
        d = list(d)
        d[-1] = d[-1] + "."
        text += "\n" + "\n".join(d) + "\n"
    text2 = HEADER2
    for d in gen_record_level(rec_cls, graph_cls) + [gen_monitor(repo)]:
        d = list(d)
        d[-1] = d[-1] + "."
        text2 += "\n" + "\n".join(d) + "\n"
    return {"Exec/ExecGen.v": text, "Exec/ExecGen2.v": text2}


if __name__ == "__main__":
    import sys
    out = generate(sys.argv[1] if len(sys.argv) > 1 else "/repo")
    sys.stdout.write(out[sys.argv[2] if len(sys.argv) > 2 else "Exec/ExecGen.v"])

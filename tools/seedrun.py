#!/usr/bin/env python3
"""Run registered checks against a seeded change without touching /repo or /verif.

  tools/seedrun.py <patch.diff> <Cxx> [<Cyy> ...] [--tier quick|thorough] [--seed N]

Creates a scratch git worktree of /repo (HEAD) with the patch applied, a scratch
copy of /verif (sources + compiled Coq tree, no _work/.git), and runs
`check Cxx` there with VERIF_REPO pointing at the patched worktree.  Prints one
line per property:  <Cxx> exit=<rc> <VIOLATION line or ->  and removes both
scratch trees.  Used while developing; the recorded seeded results are re-run
the official way (git -C /repo apply ... ; ./check ... ; git -C /repo checkout -- .).
"""
import argparse
import os
import shutil
import subprocess
import sys
import tempfile


def sh(cmd, **kw):
    return subprocess.run(cmd, shell=True, stdout=subprocess.PIPE, stderr=subprocess.STDOUT, text=True, **kw)


def main():
    ap = argparse.ArgumentParser()
    ap.add_argument("patch")
    ap.add_argument("props", nargs="+")
    ap.add_argument("--tier", default="quick")
    ap.add_argument("--seed", default="0")
    ap.add_argument("--keep", action="store_true")
    ap.add_argument("--record", help="seeded/<name> directory whose meta.json receives the result")
    a = ap.parse_args()
    patch = os.path.abspath(a.patch)
    base = tempfile.mkdtemp(prefix="seedrun_", dir="/tmp")
    wt = os.path.join(base, "repo")
    vf = os.path.join(base, "verif")
    try:
        r = sh("git -C /repo worktree add -q --detach %s HEAD" % wt)
        if r.returncode:
            print("worktree failed:", r.stdout)
            return 2
        r = sh("git -C %s apply %s" % (wt, patch))
        if r.returncode:
            print("patch does not apply:", r.stdout)
            return 2
        r = sh("rsync -a --exclude _work --exclude .git --exclude replays /verif/ %s/" % vf)
        env = dict(os.environ, VERIF_REPO=wt, VERIF_SEED=a.seed, VERIF_COQCHK="0")
        for p in a.props:   # development aid: a property whose Props file is not written yet
            pf = os.path.join(vf, "coq", "theories", "Props", p + ".v")
            if not os.path.exists(pf):
                open(pf, "w").write("Theorem placeholder_%s : True. Proof. exact I. Qed.\nPrint Assumptions placeholder_%s.\n" % (p, p))
                print("(placeholder Props/%s.v)" % p)
        rc_all = 0
        for p in a.props:
            r = sh("cd %s && timeout 3000 ./check %s --tier %s" % (vf, p, a.tier), env=env)
            lines = [l for l in r.stdout.splitlines() if l.startswith(("VIOLATION", "KNOWN-FINDING"))]
            summ = [l for l in r.stdout.splitlines() if l.startswith(p + " ")]
            print("%s exit=%d %s | %s" % (p, r.returncode, " ; ".join(lines) or "-", summ[-1] if summ else r.stdout[-300:].replace("\n", " ")))
            if a.record:
                import json, time
                mp = os.path.join(a.record, "meta.json")
                m = json.load(open(mp))
                vl = [l for l in lines if l.startswith("VIOLATION")]
                m.setdefault("checks", {})[p] = {
                    "cmd": "./check %s --tier %s  (VERIF_SEED=%s) against the patched tree" % (p, a.tier, a.seed),
                    "exit": r.returncode,
                    "verdict": ("caught: concrete failing input" if vl and "no-failing-input-found" not in vl[0]
                                else "caught: broken proof/correspondence, no-failing-input-found" if vl
                                else "MISSED" if r.returncode == 0 else "check error"),
                    "violation_line": (vl[0].split(" replay=")[0] + (" no-failing-input-found" if "no-failing-input-found" in vl[0] else "")) if vl else None,
                    "when": time.strftime("%Y-%m-%d %H:%M"), "verif_commit": sh("git -C /verif rev-parse --short HEAD").stdout.strip()}
                json.dump(m, open(mp, "w"), indent=1)
            for l in lines:
                if "replay=" in l:
                    rp = l.split("replay=")[1].split()[0]
                    if os.path.exists(rp):
                        try:
                            import json
                            d = json.load(open(rp))
                            print("   replay.kind=%s what=%s" % (d.get("kind"), str(d.get("what") or [x.get("what") for x in d.get("proof_obligations_failed", [])] + [x.get("what") for x in d.get("correspondence_failed", [])])[:400]))
                        except Exception as e:
                            print("   (replay unreadable: %r)" % e)
            sys.stdout.flush()
            rc_all |= r.returncode
        return 0
    finally:
        sh("git -C /repo worktree remove --force %s" % wt)
        if not a.keep:
            shutil.rmtree(base, ignore_errors=True)
        sh("git -C /repo worktree prune")


if __name__ == "__main__":
    sys.exit(main())

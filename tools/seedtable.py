#!/usr/bin/env python3
"""Print the seeded-change table (markdown) from seeded/*/meta.json."""
import glob, json, os
rows = []
for mp in sorted(glob.glob("/verif/seeded/*/meta.json")):
    m = json.load(open(mp))
    name = os.path.basename(os.path.dirname(mp))
    ch = m.get("checks", {})
    res = "; ".join("%s: %s" % (p, c["verdict"]) for p, c in sorted(ch.items())) or "(not run yet)"
    rows.append("| %s | %s | %s | %s |" % (name, m["breaks_property"], (m.get("summary") or "").replace("|", "/").replace("\n", " ")[:160], res))
print("| seed | breaks | change | result of the registered checks |\n|---|---|---|---|")
print("\n".join(rows))

#!/usr/bin/env python3
"""Confirm a candidate seeded change independently and file it under /verif/seeded/.

  tools/seedconfirm.py /tmp/mut_out/C03/m1 [name]

In a fresh scratch worktree of /repo: demo passes on HEAD, patch applies, demo
fails with the patch, the pinned test suite still gives 40 passed.  Only then the
patch, the demonstration and meta.json (with what was run here) are copied to
/verif/seeded/<name>/ (default name: <property>-<mK>)."""
import json
import os
import shutil
import subprocess
import sys
import tempfile


def sh(cmd, **kw):
    return subprocess.run(cmd, shell=True, stdout=subprocess.PIPE, stderr=subprocess.STDOUT, text=True, **kw)


def main():
    src = os.path.abspath(sys.argv[1])
    meta = json.load(open(os.path.join(src, "meta.json")))
    name = sys.argv[2] if len(sys.argv) > 2 else "%s-%s" % (meta["property"], os.path.basename(src))
    base = tempfile.mkdtemp(prefix="seedconf_", dir="/tmp")
    wt = os.path.join(base, "repo")
    ran = []
    ok = True
    try:
        assert sh("git -C /repo worktree add -q --detach %s HEAD" % wt).returncode == 0
        env = dict(os.environ, PYTHONPATH=wt, PYTHONDONTWRITEBYTECODE="1")
        demo = os.path.join(src, "demo.py")
        r0 = sh("cd %s && timeout 600 /venv/bin/python %s" % (base, demo), env=env)
        ran.append({"cmd": "PYTHONPATH=<HEAD worktree> /venv/bin/python demo.py", "exit": r0.returncode})
        ok &= r0.returncode == 0
        ra = sh("git -C %s apply %s" % (wt, os.path.join(src, "patch.diff")))
        ran.append({"cmd": "git apply patch.diff", "exit": ra.returncode})
        ok &= ra.returncode == 0
        r1 = sh("cd %s && timeout 600 /venv/bin/python %s" % (base, demo), env=env)
        ran.append({"cmd": "PYTHONPATH=<patched worktree> /venv/bin/python demo.py", "exit": r1.returncode,
                    "tail": r1.stdout.strip().splitlines()[-3:]})
        ok &= r1.returncode != 0
        rt = sh("cd %s && timeout 900 /venv/bin/python -m pytest -ra -q -p no:cacheprovider --timeout=900 "
                "--continue-on-collection-errors 2>&1 | tail -1" % wt, env=env)
        ran.append({"cmd": "pytest (baseline command) in the patched worktree", "result": rt.stdout.strip()})
        ok &= "40 passed" in rt.stdout
        ri = sh("cd %s && /venv/bin/python -c 'import maestrowf, maestrowf.maestro, maestrowf.conductor'" % wt, env=env)
        ok &= ri.returncode == 0
    finally:
        sh("git -C /repo worktree remove --force %s" % wt)
        shutil.rmtree(base, ignore_errors=True)
        sh("git -C /repo worktree prune")
    print(name, "CONFIRMED" if ok else "REJECTED", json.dumps(ran)[:600])
    if ok:
        dst = os.path.join("/verif/seeded", name)
        os.makedirs(dst, exist_ok=True)
        shutil.copy(os.path.join(src, "patch.diff"), dst)
        shutil.copy(demo, dst)
        meta2 = {"breaks_property": meta["property"], "summary": meta.get("summary"),
                 "needs_to_manifest": meta.get("needs_to_manifest"), "files_touched": meta.get("files_touched"),
                 "origin": "written by an independent sub-agent that saw only the property text and a scratch worktree of /repo",
                 "confirmed_by_coordinator": ran, "checks": {}}
        old = os.path.join(dst, "meta.json")
        if os.path.exists(old):
            meta2["checks"] = json.load(open(old)).get("checks", {})
        json.dump(meta2, open(old, "w"), indent=1)
    return 0 if ok else 1


if __name__ == "__main__":
    sys.exit(main())

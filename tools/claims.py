# claim(pid, level text, technique, DESIGN ref, note)   -- executed by tools/mkmanifest.py
claim("C14",
      "Machine-checked (Coq) theorems over an executable model of dag.py, for every operation sequence and every graph: "
      "detect_cycle sound and complete, the graph is acyclic and well-formed after every add_node/add_edge/remove_edge whether the call "
      "returned or raised, refused edges leave tables unchanged, valid edges are accepted, topological_sort is a forward permutation, "
      "bfs_subtree is duplicate-free and exactly the reachable set, dfs_subtree covers it. The model is tied to the real DAG class by an "
      "exhaustive small-scope + random differential run evaluated inside Coq, and the monitor C14_ok applied to the implementation's "
      "observables is the predicate the theorems are about (C14_monitor_meaning, C14_model_ok).",
      "Coq proof (induction over operation sequences, DFS/BFS invariants) + in-Coq differential correspondence with dag.py",
      "DESIGN.md 5/C14, 10")
claim("C11",
      "Coq theorems over the executable expansion model (Expand.v, with an order oracle at every set iteration of study.py): for all "
      "specifications and all admissible oracles the full observable (instance names in insertion order, adjacency, dependencies, workspaces, "
      "expanded fields, params listing, per-poll submission order, status rows, script texts) is oracle-independent, and relocation of the "
      "output root changes nothing but the root prefix. Tie: every generated specification is staged and dry-run in >=3 fresh interpreters "
      "with different PYTHONHASHSEED and output roots; all serialisations must be equal and equal to the model evaluated inside Coq.",
      "Coq proof (order-oracle independence, sort canonicity) + cross-process differential correspondence",
      "DESIGN.md 5/C11, 10")
claim("C18",
      "Partial by nature (dill's fidelity is runtime behaviour, named as the premise load(store D)=D): Coq theorems that staging is a function "
      "of the stored study data only (even across processes iterating sets differently), that a lossy codec is detected, that every accepted "
      "hand-off call order stages what is on disk, and that the per-poll snapshot and status rows are projections of one state. Tie: ast "
      "obligations on run_study/monitor_study judged by Coq checkers, store->fresh-process load->stage compared with in-memory staging and "
      "the Expand model, and every per-poll snapshot re-loaded and compared with status.csv.",
      "Coq proof over hand-off/snapshot models + end-to-end differential run through real store/load (dill) and fresh processes",
      "DESIGN.md 5/C18, 10", "PARTIAL: pickling fidelity is exercised, not proved.")
claim("C16",
      "Coq theorems over regenerated state tables (T-data from the three adapters) and executable parser models: FINISHED only for the "
      "schedulers' success codes; every manual-listed alive code maps to a non-terminal state; a failing query command never yields OK and "
      "no state is reported on a non-OK code (incl. Slurm's squeue/sacct combination); printer-parser round trips for squeue, sacct "
      "(fallback only for ids still missing) and bjobs (EXIT refinement) for ALL tables and queried id lists: the answer for id j is the "
      "state of the last row whose id EQUALS j, rows of other ids never matter. Tie: tables regenerated from source each run; the real "
      "check_jobs of the Slurm/LSF adapters (process layer scripted) and Flux state functions compared with the model inside Coq; the "
      "monitors applied to the implementation's answers are proved of the model (C16_monitor_*); the engine layer above the adapters "
      "(ExecutionGraph.check_study_status: a job with no key or None leaves its step without a state, Sched/ParseEngine.v: "
      "C16_engine_absent/present) is run on the adapters' real answers.",
      "Coq proof (induction over rows; finite table facts by vm_compute over regenerated data) + in-Coq differential correspondence",
      "DESIGN.md 5/C16, 10")
claim("C08",
      "Coq theorems over the executable expansion model (study.py staging, parameters.py, ExecutionGraph.add_step/add_connection), for all "
      "specifications inside the decidable hygiene H8 and all set-iteration oracles: used-parameter closure, instance sharing iff rows agree "
      "on the used parameters, parents/_dependencies exactly {same-row instance of each ordinary dependency} U {all instances of each funnel "
      "dependency} and _source iff none, one unparameterised instance, totality, sound sharing, parents earlier in insertion order, restart "
      "limit attached iff a restart command exists. Outside H8 two known findings (K2, K2b) are refuted by witnesses. Tie: the real "
      "Study.stage() on exhaustive tiny + generated specifications compared with the model inside Coq under two oracles; the monitor C08_ok "
      "evaluated on the implementation's graph is the predicate C08_monitor_holds proves of the model; the two regex scanners are compared "
      "with Python's re.",
      "Coq proof (staging invariant by induction over the step/row loops) + in-Coq differential correspondence with Study.stage()",
      "DESIGN.md 5/C08, 10")
claim("C05",
      "Coq theorems over the regenerated polling model, for all graphs, throttles, restart limits, attempts, reachable states and input "
      "streams: the verdict function is characterised exactly (FINISHED iff all completed and no cancel; CANCELLED / FAILURE / RUNNING "
      "cases; never ABORT; a final verdict leaves nothing in progress), exit code = regenerated StudyStatus value (0 iff FINISHED), a "
      "potential function (3/2/1 weights + remaining restart budget) never increases except on hardware-failure reports and strictly "
      "decreases on productive polls, no deadlock when nothing is in progress, and termination for every fair, eventually quiet stream "
      "(C05_terminates) with the quantitative bound; the whole trace monitor incl. family 5 (verdict codes 51-54 and 55 = every enabled step was run at a "
      "normal termination) is proved silent on every model trace (Props/ExecMonitor.v: monitor_silent). Tie: T-code, "
      "histories against the real ExecutionGraph / Conductor.monitor_study incl. fair tails that must stop within the bound, and process "
      "exit codes of real `maestro run -fg` / `conductor` runs.",
      "Coq proof (inductive invariant + variant/potential argument over infinite streams) + in-Coq differential correspondence + end-to-end exit codes",
      "DESIGN.md 5/C05, 10")
claim("C10",
      "Coq theorems for all strings (Unicode code points) over the regenerated sanitiser alphabet and the path model: sanitised components "
      "contain no '/', workspaces root/c1[/c2] are strictly inside the root after (proved idempotent) normalisation, distinct instances have "
      "distinct workspaces and script paths and are not nested under H10 (sanitiser injective on the study's names / digest injective with "
      "--hashws), every script/.out/.err is a direct child of its directory; three known findings outside H10 are refuted by witnesses and "
      "the monitor holds on the exact complement of their signatures. Tie: alphabet and file-name templates regenerated from source; dry "
      "runs of generated studies with all four adapters, --hashws/--usetmp, compared (paths, trees) with the model inside Coq.",
      "Coq proof (string/path normal forms, injectivity) + in-Coq differential correspondence on real dry runs",
      "DESIGN.md 5/C10, 10")
claim("C12",
      "Coq theorems: status order is a duplicate-free permutation of the instances (BFS exact), writer/reader round trip for all tables "
      "inside H12 (= exactly the complement of the two known-finding signatures, refuted by witnesses), each row shows the current record, "
      "by induction over all polls the Job ID / State / Restarts columns are those of the Exec model, and in an interleaving model of the "
      "lock discipline every schedule gives a reader {} or the last complete table (torn reads exist once the lock is removed). Tie: "
      "header/format constants regenerated from source, an ast obligation that both opens are inside the lock, real status.csv after every "
      "poll of real histories compared with the model inside Coq, a deterministic Timeout scenario and a multi-process stress run on the "
      "real FileLock.",
      "Coq proof (BFS, CSV round trip, interleaving semantics) + in-Coq differential correspondence + lock stress run",
      "DESIGN.md 5/C12, 10", "PARTIAL: mutual exclusion itself (filelock + OS) is assumed and exercised, not proved.")
claim("C19",
      "Coq theorems on the regenerated Exec model for local steps (at most `attempts` submissions stopping at the first success; success => "
      "FINISHED and completed in the same poll; all attempts failing => FAILED with the sub-tree swept; a step is submitted only when all "
      "parents completed). Tie: studies run end-to-end through the real `maestro run -fg` with the real LocalScriptAdapter (exit codes "
      "1..255 and signal kills per attempt); marker sequence, cwd, .out/.err capture, status rows and exit code checked, the Exec model's "
      "trace compared inside Coq.",
      "Coq proof over the Exec model + end-to-end differential run through the real CLI and local adapter",
      "DESIGN.md 5/C19, 10", "PARTIAL: that Popen waits for the child and reports its code is OS/CPython behaviour, exercised not modelled.")
claim("C02",
      "Coq theorems on the regenerated polling model for all graphs, configs and histories (wf graph, valid reports, attempts >= 1): the "
      "trace monitor family 2 (codes 2, 21-24) is silent on the model's own trace (C02_monitor), no failed/cancelled node or descendant is "
      "ever submitted again (same poll and later), the whole sub-tree is swept FAILED/CANCELLED in the same poll and stays so, every swept "
      "node lies under a node with an own unsuccessful report / failed submission / post-cancel pop (nothing else is swept), and at a "
      "FINISHED/FAILURE verdict every other step completed. Tie: T-code regeneration, bfs_subtree completeness, in-Coq differential "
      "correspondence (exhaustive tiny scope + random histories, partly through Conductor.monitor_study) and the same monitor on the "
      "implementation's trace.",
      "Coq proof (extended inductive invariant over macro-steps of a poll; monitor proved silent on the model) + in-Coq differential correspondence",
      "DESIGN.md 5/C02, 10")
claim("C06",
      "Coq theorems on the regenerated polling model: monitor family 6 (61, 62, 63, 66, 67) silent on every model trace (C06_monitor); a "
      "Restart submission only for steps with a restart command, only in a poll that delivered TIMEDOUT with query OK, never the main "
      "script; restarts <= limit at every poll boundary; the restart column equals the number of polls with a Restart submission; "
      "TIMEDOUT without restart command => TIMEDOUT/failed, exhausted budget => FAILED, descendants swept; plus (Props/C08) the restart "
      "limit is attached iff a restart command exists. Tie: T-code (mark_restart, TIMEDOUT branch, retry loop + ExecGen2 equality), "
      "timeout-heavy histories against the real ExecutionGraph, Study.stage() for the limit.",
      "Coq proof (restart accounting invariant; monitor proved silent on the model) + in-Coq differential correspondence",
      "DESIGN.md 5/C06, 10")
claim("C09",
      "Coq theorems for all texts and token tables: the general law that sequential Python str.replace passes in ANY order equal the "
      "simultaneous substitution whenever the result contains no token (seq_eq_sim, plus the sub-loop form used by the workspace pass), its "
      "consequences (no defined token survives, other characters untouched, order irrelevant), the parameter/environment/workspace tables "
      "map $(K), $(K.label), $(K.name), $(p.workspace) (same combination / funnel root), $(WORKSPACE) to the right values and only those, "
      "apply_function reaches every string at every depth, script text = rec o ws o param o env; two known findings (K4a, K4b) outside the "
      "hygiene hypothesis are refuted by witnesses. Tie: scripts written through the real adapters, str.replace orders, re.findall(WSREGEX) "
      "and apply_function compared with the model inside Coq; the monitor C09_ok on the implementation's scripts is the proved predicate.",
      "Coq proof (string rewriting: sequential = simultaneous substitution) + in-Coq differential correspondence on real scripts",
      "DESIGN.md 5/C09, 10")
claim("C13",
      "Coq theorems over ALL JSON documents and the regenerated schema: verification + consumers + study construction never end in an "
      "internal error (C13_never_internal), accepted => every consumer is total (keys present with the needed types), the built step list "
      "equals the document's, every schema priority string is understood with a Flux urgency, each mutation class of the property "
      "(deleted required key, empty string, unknown key, wrong type, duplicate variable/dependency/step, value/label length mismatch, "
      "undefined or self dependency) is rejected with a diagnostic, monitor proved of the model, and C13_stageable: an accepted document "
      "inside H8 whose workspace references name earlier nodes always stages in the Expand model (totality of the expansion model proved) "
      "and satisfies C08's monitor. One known finding (duplicate YAML keys). Tie: "
      "schema and from_str regenerated; the schema interpreter validated against jsonschema; exhaustive single mutations + generated "
      "documents through the real front end compared with the model inside Coq.",
      "Coq proof (schema-interpreter soundness, totality of consumers) + in-Coq differential correspondence with the real loader/validator",
      "DESIGN.md 5/C13, 10")
claim("C17",
      "Coq theorems on the regenerated polling model for all graphs/configs/histories with dry_run on: the only adapter calls are script "
      "generations and cancel_jobs([]) (monitor family 17 silent on every dry trace: prop_ok 17 proved), nothing is ever in progress, every "
      "poll completes at least one more instance, the run ends FINISHED with every row DRYRUN within length+1 polls, each node's script is "
      "generated exactly once and the generation sequence equals that of the real run under an ideal scheduler (lock-step simulation). "
      "Tie: T-code, dry and real histories side by side against the real ExecutionGraph, and real `maestro run --dry -fg` over "
      "{--hashws}x{--usetmp}x throttle x attempts compared with real runs (no submit/check/execute; same script bytes, directory tree and "
      "permission bits; exit 0); process layer (c17_procs.py): real Slurm/LSF/Flux/local adapters, every process door and fake scheduler "
      "executables observed, cancel requests injected, dry run must record nothing; the callees of every adapter constructor/write_script "
      "are regenerated (Gen/CtorEffects.v) and proved free of process/engine/broker calls except Flux's version read.",
      "Coq proof (dry-run invariant + simulation; monitor proved silent on the model) + in-Coq correspondence + end-to-end dry runs through the CLI",
      "DESIGN.md 5/C17, 10")
claim("C20",
      "Coq theorems on the regenerated polling model: a query ERROR aborts with records, sets, queue and dependencies untouched and no "
      "submission (and abort happens only then), NOJOBS = the poll with an empty report list, any subset of quiet entries (missing, None, "
      "non-terminal non-RUNNING) can be erased without changing the poll, a tracked step whose entries are quiet keeps its record and "
      "stays in progress, a RUNNING report changes only the state; run-level corollaries; every monitor code of the family (201-203, 205, 207, 40) "
      "is proved silent on every model trace (Props/ExecMonitor.v). Tie: T-code (ERROR test before any mutation, OK-only dispatch), "
      "exhaustive fault injection (every query code and a cancel at every poll, absent/None reports) + random faulty histories.",
      "Coq proof (frame/erasure lemmas of the dispatch fold) + in-Coq differential correspondence with fault injection",
      "DESIGN.md 5/C20, 10")
_EXEC = ("All 43 codes of the trace monitor are proved silent on the model's own trace (Props/ExecMonitor.v: monitor_silent), so the "
         "run-time monitor is exactly the proved predicate. Tie: Exec/ExecGen.v and ExecGen2.v regenerated from executiongraph.py / conductor.py on every run (T-code; equality lemmas for the "
         "hand-written summaries), histories generated adaptively against the real ExecutionGraph (40% through the real "
         "Conductor.monitor_study loop, cancel via the lock file, cancel/submit/query faults), exhaustive tiny scopes, model observations = "
         "implementation observations and the SAME trace monitor evaluated on the implementation's trace inside Coq; the theorems' "
         "hypotheses (valid poll inputs) are asserted on every history.")
claim("C01",
      "Coq theorem for all graphs, configs and poll-input lists: the observable-trace monitor for C01 (every submission - main or restart, "
      "scheduled or local - happens only when all parents have succeeded according to the ledger of delivered reports) is silent on the "
      "model's own trace (prop_ok 1), via an inductive coupling between the model state and the ledger; companion C08 theorems show the "
      "execution graph's parents are exactly the dependency sets; Exec/ExecStaged.v + harness/c01_staged.py additionally decide C01 on graphs "
      "staged by the real Study.stage() with the expected parents taken from the Coq expansion model. " + _EXEC,
      "Coq proof (inductive invariant coupling state and observable ledger; monitor proved silent on the model) + in-Coq differential correspondence",
      "DESIGN.md 5/C01, 10")
claim("C03",
      "Coq theorems for all graphs/configs/histories: monitor family 3 silent on the model trace (prop_ok 3): live jobs per the ledger never "
      "exceed a non-zero throttle at any event (also inside the launch loop and restart handling), |in progress| <= throttle after every "
      "poll, and with throttle 0 every staged step is submitted in the same poll. " + _EXEC,
      "Coq proof (ledger coupling + slot arithmetic) + in-Coq differential correspondence",
      "DESIGN.md 5/C03, 10")
claim("C04",
      "Coq theorems for all graphs/configs/histories: full monitor family 4 silent on the model trace (prop_ok 4: at most one live job per "
      "step, queried set = live set, no resubmission after success or resolution, resolved rows stay resolved, row FINISHED iff succeeded, "
      "no live job when a final verdict is returned), and the completed / in-progress / failed-or-cancelled sets stay disjoint. " + _EXEC,
      "Coq proof (ledger coupling) + in-Coq differential correspondence",
      "DESIGN.md 5/C04, 10")
claim("C07",
      "Coq theorems for all graphs/configs/histories: monitor family 7 silent on the model trace (prop_ok 7): after a cancel request (a poll "
      "input) no submission of any kind, the first adapter call of that poll is cancel_jobs with exactly the live set, and the first poll "
      "that ends with no live job returns CANCELLED. Cancel totality for empty job lists is checked against the real adapters in the "
      "correspondence run (C07_no_crash is not a Coq theorem); draining is C05's liveness. " + _EXEC,
      "Coq proof (ledger coupling) + in-Coq differential correspondence with cancel injection",
      "DESIGN.md 5/C07, 10", "C07_no_crash (adapter return shapes) is checked at run time, not proved.")
claim("C15",
      "Coq theorems over regenerated header templates/flags (T-data from the four adapters) and executable header/launcher models, for every "
      "batch block and step inside the decidable domain H15: the monitor C15_ok (directive readers written from the schedulers' documented "
      "option syntax applied to the generated script give back exactly the effective resources - both directions, each key at most once; no "
      "launcher token survives and each replacement reads back to the requested tasks/nodes; over-allocation rejected with a diagnostic and "
      "only then; local steps unscheduled with shebang + command verbatim; never an internal error) holds on the model for Slurm, LSF "
      "(incl. the H:M:S walltime conversion), Flux and Local; three known findings are refuted by witnesses. Tie: templates and regex texts "
      "regenerated from source; the real write_script of the four adapters on exhaustive small scopes + generated cases compared with the "
      "model and judged by the same monitor inside Coq.",
      "Coq proof (printer/reader round trips over regenerated templates, token scanner) + in-Coq differential correspondence with write_script",
      "DESIGN.md 5/C15, 10")

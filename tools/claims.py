# claim(pid, level text, technique, DESIGN ref, note)   -- executed by tools/mkmanifest.py

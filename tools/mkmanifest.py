#!/usr/bin/env python3
"""Regenerate /verif/MANIFEST.json from the table below (claimed properties) and
/verif/properties.jsonl (everything not claimed goes to not_applicable with a reason)."""
import json
import os
import subprocess

V = os.path.dirname(os.path.dirname(os.path.abspath(__file__)))

TB = ("The model's control flow is also regenerated from the current source by fail-closed ast translators and proved EQUAL to the "
      "hand-written model (translate/tcode_*.py, *GenProofs.v), so a source edit breaks a proof obligation. Trusted: Coq 8.16.1 kernel + vm_compute (no native_compute, no extraction); no axioms declared "
      "(Print Assumptions of every property theorem parsed on every run; audit for Admitted/Axiom/Parameter/...); "
      "the fail-closed Python-ast translators under translate/ and the correspondence harness under harness/; "
      "CPython/re/jsonschema/yaml/dill/filelock/OS are exercised, not modelled. The theorems are about executable Gallina models; "
      "the tie to /repo is regenerated data/code (T-data, T-code) plus the differential correspondence run evaluated inside Coq on every invocation.")

# id -> (claimed?, level text, technique, design ref, extra note)
CLAIMS = {}


def claim(pid, text, technique, ref, note=""):
    CLAIMS[pid] = (text, technique, ref, note)


def main():
    exec(open(os.path.join(V, "tools", "claims.py")).read(), {"claim": claim})
    props = [json.loads(l) for l in open(os.path.join(V, "properties.jsonl"))]
    na_reasons = {}
    p = os.path.join(V, "tools", "not_claimed.json")
    if os.path.exists(p):
        na_reasons = json.load(open(p))
    checks, na = [], []
    for d in props:
        pid = d["id"]
        if pid in CLAIMS:
            text, tech, ref, note = CLAIMS[pid]
            checks.append({
                "property_id": pid,
                "quick_cmd": "./check %s" % pid,
                "thorough_cmd": "./check %s --tier thorough" % pid,
                "evidence_file": "/verif/evidence/%s.json" % pid,
                "replay_cmd_template": "./check %s --replay {path}" % pid,
                "engine": "coq-proof+correspondence",
                "level_claimed": {"category": "proof", "text": text, "design_ref": ref},
                "level_note": (note + " " if note else "") + TB,
                "technique": tech,
            })
        else:
            na.append({"property_id": pid,
                       "reason": na_reasons.get(pid, "not claimed yet: check under construction (see DESIGN.md section 5)")})
    hooks_commits = []
    man = {
        "version": 1,
        "setup_cmd": "cd /verif && ./check --setup",
        "hooks": {
            "guard": "LLNL_MAESTROWF_VERIF",
            "enable": "no source hooks: the checks import the repository's working tree directly (PYTHONPATH=/repo) and inject the scripted "
                      "scheduler/process stubs through the adapter plug-in registry and module attributes; the guard variable is set by "
                      "./check but read by nothing in /repo",
            "baseline_off_cmd": "cd /repo && /venv/bin/python -m pytest -ra -q -p no:cacheprovider --timeout=900 --continue-on-collection-errors",
            "source_commits": hooks_commits,
            "add_only": True,
        },
        "engines": [{
            "name": "coq-proof+correspondence",
            "path": "/verif/check",
            "serves_properties": sorted(CLAIMS),
            "kind_free_text": "Coq 8.16.1 theorems over executable Gallina models; models tied to /repo by regenerated data and code "
                              "(translate/: T-data tables/schemas/templates, T-code decision logic of executiongraph.py) and by a "
                              "differential correspondence run whose model side and property monitors are evaluated inside Coq (vm_compute)",
        }],
        "checks": checks,
        "notes": "see DESIGN.md; known findings and repaired defects: KNOWN_FINDINGS.txt; seeded changes used to test the checks: seeded/",
        "not_applicable": na,
    }
    with open(os.path.join(V, "MANIFEST.json"), "w") as f:
        json.dump(man, f, indent=1)
    # validate
    try:
        import jsonschema
        jsonschema.validate(man, json.load(open("/root/.vp/MANIFEST.schema.json")))
        print("MANIFEST valid; claimed:", sorted(CLAIMS))
    except ImportError:
        print("jsonschema not importable here; claimed:", sorted(CLAIMS))


if __name__ == "__main__":
    main()

#!/bin/bash
# tools/fullpass.sh <tier> <seed> [P]   runs every claimed check, P at a time; summary at the end
tier=${1:-quick}; seed=${2:-0}; P=${3:-3}
mkdir -p /verif/_work/passlogs
ids=$(python3 -c "import json;print(' '.join(c['property_id'] for c in json.load(open('/verif/MANIFEST.json'))['checks']))")
for p in $ids; do echo $p; done | xargs -P $P -I{} bash -c "cd /verif && VERIF_SEED=$seed timeout 5400 ./check {} --tier $tier > /verif/_work/passlogs/{}_${tier}_$seed.log 2>&1; echo \"{} rc=\$?\" >> /verif/_work/passlogs/summary_${tier}_$seed.txt"
echo "=== $tier seed=$seed"; sort /verif/_work/passlogs/summary_${tier}_$seed.txt; for p in $ids; do tail -1 /verif/_work/passlogs/${p}_${tier}_$seed.log; done

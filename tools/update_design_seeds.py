#!/usr/bin/env python3
import subprocess, re
t = open('/verif/DESIGN.md').read()
tab = subprocess.run(['/verif/tools/seedtable.py'], stdout=subprocess.PIPE, text=True).stdout
t = re.sub(r"(<!-- SEEDTABLE:BEGIN[^>]*-->\n).*?(<!-- SEEDTABLE:END -->)", lambda m: m.group(1) + tab + m.group(2), t, flags=re.S)
open('/verif/DESIGN.md', 'w').write(t)

#!/bin/bash
# tools/seedbatch.sh "<dir>:<prop> ..."   runs seedrun for each (4 at a time), logs under _work/seedlogs
mkdir -p /verif/_work/seedlogs
for s in "$@"; do echo "$s"; done | xargs -P ${SEED_P:-4} -I{} bash -c 's={}; d=${s%%:*}; p=${s##*:}; /verif/tools/seedrun.py /tmp/mut_out/$d/patch.diff $p > /verif/_work/seedlogs/$(echo $d | tr / _)_$p.log 2>&1'
for s in "$@"; do d=${s%%:*}; p=${s##*:}; echo "== $s"; grep -v "^(placeholder" /verif/_work/seedlogs/$(echo $d | tr / _)_$p.log | cut -c1-700; done

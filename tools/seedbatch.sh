#!/bin/bash
# tools/seedbatch.sh "<dir>:<prop> ..."   runs seedrun for each (4 at a time), logs under _work/seedlogs
mkdir -p /verif/_work/seedlogs
for s in "$@"; do echo "$s"; done | xargs -P ${SEED_P:-4} -I{} bash -c 's={}; d=${s%%:*}; p=${s##*:}; n=$(echo $d | tr / -); /verif/tools/seedrun.py /verif/seeded/$n/patch.diff $p --record /verif/seeded/$n > /verif/_work/seedlogs/$(echo $d | tr / _)_$p.log 2>&1'
for s in "$@"; do d=${s%%:*}; p=${s##*:}; echo "== $s"; grep -v "^(placeholder" /verif/_work/seedlogs/$(echo $d | tr / _)_$p.log | cut -c1-700; done

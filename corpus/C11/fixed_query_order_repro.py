import sys, os
sys.path.insert(0, '/verif')
from harness import exec_harness as H
import random
H._setup()
from maestrowf.interfaces import ScriptAdapterFactory
from maestrowf.abstracts.enums import JobStatusCode, State
S = ScriptAdapterFactory.factories["scripted"]
polls = {"n": 0}
def check_jobs(self, joblist):
    polls["n"] += 1
    st = {}
    for j in joblist:           # answer in the order asked, as the real adapters do
        st[j] = State.HWFAILURE if polls["n"] == 2 else State.RUNNING
    return JobStatusCode.OK, st
S.check_jobs = check_jobs
nodes = [{"parents": [], "children": [], "scheduled": True, "has_restart": False, "rlimit": 0} for _ in range(6)]
cfg = {"throttle": 0, "attempts": 1, "dry": False}
H.CTX = H.Ctx(nodes, random.Random(0), "mixed")
H.CTX.pin = {"subs": [], "reports": [], "q": "OK"}
dag = H.build_dag(nodes, cfg, "/verif/_work/c11def/ws")
order = []
for k in range(3):
    H.CTX.events = []
    dag.execute_ready_steps()
    order.append([e[1] for e in H.CTX.events if e[0] == "submit"])
print(order)
